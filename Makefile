# Builds the simulation host and the daemon's modules from /repo's CURRENT
# working tree.  Nothing here is kept in /tmp.
REPO     ?= /repo
B        ?= /verif/build
CC       := gcc
GUARD    := -DIAUTHD_C_VERIF
SAN      ?= -fsanitize=address,undefined -fno-sanitize-recover=null,bounds,object-size,alignment -fsanitize-recover=address
CFLAGS   := -O1 -g -fno-omit-frame-pointer -std=gnu99 $(SAN) $(GUARD) -DHAVE_CONFIG_H \
            -I$(REPO) -I/verif/sim/compat \
            -DSYSCONFDIR='"/nonexistent/etc"' -DMODULESDIR='"/nonexistent/lib"' -DLOGDIR='"/nonexistent/log"'
LDLIBS   := -levent -lm -ldl

CORE_SRC := accumulators bitset common config log module set git-version
CORE_OBJ := $(addprefix $(B)/obj/,$(addsuffix .o,$(CORE_SRC)))
MODS     := iauth iauth_xquery iauth_class
# many independent modules whose names sort before the others (counts across 127/128: rare "bulk" runs)
BULK     := $(shell seq -f "a%03g" 0 139)
STUBN    := m0 m1 m2 m3 m4 m5 m6 m7 m8 m9 m m1x m1xy M2z
# each stub in four variants: all hooks / no post-init / no destructor / neither (separate files: dlopen
# identifies a library by its inode)
STUBS    := $(STUBN) $(addsuffix _np,$(STUBN)) $(addsuffix _nd,$(STUBN)) $(addsuffix _npd,$(STUBN)) $(addsuffix _nc,$(STUBN)) $(BULK)
HDRS     := $(wildcard $(REPO)/src/*.h) $(wildcard $(REPO)/modules/*.h) $(wildcard $(REPO)/autoconf.h) $(B)/.flags

# objects are rebuilt when the compile line or the repository location changes
$(B)/.flags: FORCE
	@mkdir -p $(B); echo '$(CC) $(CFLAGS) $(REPO)' | cmp -s - $@ || echo '$(CC) $(CFLAGS) $(REPO)' > $@
FORCE:

all: $(B)/simhost $(addprefix $(B)/mods/,$(addsuffix .so,$(MODS))) \
     $(addprefix $(B)/stubs/,$(addsuffix .so,$(STUBS)))

$(B)/obj $(B)/mods $(B)/stubs:
	mkdir -p $@

$(B)/obj/%.o: $(REPO)/src/%.c $(HDRS) | $(B)/obj
	$(CC) $(CFLAGS) -c $< -o $@

$(B)/obj/main.o: $(REPO)/src/main.c $(HDRS) | $(B)/obj
	$(CC) $(CFLAGS) -Dmain=iauthd_main -c $< -o $@

$(B)/obj/simhost.o: /verif/sim/simhost.c $(HDRS) | $(B)/obj
	$(CC) $(CFLAGS) -c $< -o $@

$(B)/simhost: $(CORE_OBJ) $(B)/obj/main.o $(B)/obj/simhost.o
	$(CC) $(CFLAGS) -rdynamic -Wl,--wrap=conf_read -Wl,--wrap=fread $^ -o $@ $(LDLIBS)

$(B)/mods/iauth.so: $(REPO)/modules/iauth_core.c $(REPO)/modules/iauth_misc.c $(HDRS) | $(B)/mods
	$(CC) $(CFLAGS) -fPIC -shared $(REPO)/modules/iauth_core.c $(REPO)/modules/iauth_misc.c -o $@

$(B)/mods/iauth_%.so: $(REPO)/modules/iauth_%.c $(HDRS) | $(B)/mods
	$(CC) $(CFLAGS) -fPIC -shared $< -o $@

$(B)/stubs/stub.so: /verif/sim/stub_module.c $(HDRS) | $(B)/stubs
	$(CC) $(CFLAGS) -fPIC -shared $< -o $@

$(B)/stubs/stub_np.so: /verif/sim/stub_module.c $(HDRS) | $(B)/stubs
	$(CC) $(CFLAGS) -DSTUB_NO_POSTINIT -fPIC -shared $< -o $@

$(B)/stubs/stub_nd.so: /verif/sim/stub_module.c $(HDRS) | $(B)/stubs
	$(CC) $(CFLAGS) -DSTUB_NO_DTOR -fPIC -shared $< -o $@

$(B)/stubs/stub_npd.so: /verif/sim/stub_module.c $(HDRS) | $(B)/stubs
	$(CC) $(CFLAGS) -DSTUB_NO_POSTINIT -DSTUB_NO_DTOR -fPIC -shared $< -o $@

$(B)/stubs/stub_nc.so: /verif/sim/stub_module.c $(HDRS) | $(B)/stubs
	$(CC) $(CFLAGS) -DSTUB_NO_CTOR -fPIC -shared $< -o $@

$(B)/stubs/m%_nc.so: $(B)/stubs/stub_nc.so
	cp $< $@

$(B)/stubs/m%_np.so: $(B)/stubs/stub_np.so
	cp $< $@

$(B)/stubs/m%_nd.so: $(B)/stubs/stub_nd.so
	cp $< $@

$(B)/stubs/m%_npd.so: $(B)/stubs/stub_npd.so
	cp $< $@

$(B)/stubs/m%.so: $(B)/stubs/stub.so
	cp $< $@

$(B)/stubs/a%.so: $(B)/stubs/stub.so
	cp $< $@

# names that the pattern rules above do not produce (empty stem, capital M)
$(B)/stubs/m.so $(B)/stubs/M2z.so: $(B)/stubs/stub.so
	cp $< $@
$(B)/stubs/m_np.so $(B)/stubs/M2z_np.so: $(B)/stubs/stub_np.so
	cp $< $@
$(B)/stubs/m_nd.so $(B)/stubs/M2z_nd.so: $(B)/stubs/stub_nd.so
	cp $< $@
$(B)/stubs/m_npd.so $(B)/stubs/M2z_npd.so: $(B)/stubs/stub_npd.so
	cp $< $@
$(B)/stubs/m_nc.so $(B)/stubs/M2z_nc.so: $(B)/stubs/stub_nc.so
	cp $< $@

build:
	@mkdir -p $(B) /verif/sim/compat
	@if [ -f $(REPO)/autoconf.h ]; then rm -f /verif/sim/compat/autoconf.h; else cp /verif/sim/autoconf.fallback.h /verif/sim/compat/autoconf.h; fi
	@flock $(B)/.lock $(MAKE) --no-print-directory -s all

clean:
	rm -rf $(B)

.PHONY: all build clean FORCE
