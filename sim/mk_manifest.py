import json,sys
sys.path.insert(0,'/verif/sim')
import profiles
props=[json.loads(l) for l in open('/verif/properties.jsonl')]
NA={
 "C12":"Pure function of its input (printer/parser round trip over all 2^128 addresses): no schedule, clock, fault or interleaving for a simulator to own; needs enumeration/property-based testing, a different technique family. The reachable part (every announced address is parsed, printed and echoed) is monitored line by line under C09.",
 "C13":"Pure functions over (address, mask, length) and over strings: no nondeterminism or fault surface. The part reachable from the daemon (rule address criteria vs announced addresses) is exercised by C11's independent evaluator; string totality/memory safety is a fuzzing or bounded-model-checking question.",
 "C16":"parse(render(tree)) = tree is a pure function of the file text; there is no fault or schedule dimension (torn files are C14, load sequences C15). Simulation would only dress input generation in simulator vocabulary.",
 "C19":"A sequential, allocation-free container with no I/O, time, concurrency or failure mode; 'all operation sequences over <=7 keys, complete exploration of tree shapes' is model checking. The simulator only runs a structural audit of the daemon's live sets as a tripwire (reported under C10), which is not a claim about the container's API.",
}
TECH={
 "C01":"deterministic simulation: seeded schedule search, per-instance history invariants on the server channel",
 "C02":"deterministic simulation: seeded schedule/timer search, safety invariant evaluated at every verdict; recorded sessions re-delivered with their input queued before start-up",
 "C03":"deterministic simulation: per-step progress obligation + bounded liveness after faults stop",
 "C05":"deterministic simulation: reference model of service replies vs verdict content",
 "C06":"deterministic simulation: per-step obligation and field-by-field reconstruction of every query",
 "C09":"deterministic simulation: grammar + independent address parser on every output line",
 "C10":"deterministic simulation with real libevent timers on a simulated clock: reference count model, structural audit, ASan/LSan at exit; differential burst runs (same history, several lines per read)",
 "C11":"deterministic simulation: independent rule evaluator compared at every acceptance",
 "C04":"deterministic simulation, differential: same seeded history with and without one injected stray reply, byte-equal outputs",
 "C07":"deterministic simulation, metamorphic: per-client projections equal across seeded interleavings (and vs solo runs), with id take-over, late replies, a crowd of earlier clients, one or two table reloads at fixed per-client positions, backlogs in the same write, and the server channel as one socket whose peer reads slowly",
 "C08":"deterministic simulation with fault injection on the byte pipe: arbitrary bytes, read boundaries (also reads of exactly 4096 bytes), EINTR/EAGAIN, EOF at any byte, input queued before start-up; sanitizer/exit oracle + differential outputs",
 "C14":"deterministic simulation: torn/garbled/missing config and failing fread at reload, dump-before == dump-after + hook log + ASan",
 "C15":"deterministic simulation: seeded reload/registration histories against a reference model of the config store",
 "C17":"deterministic simulation, differential: reloaded daemon vs freshly started daemon on the same probe clients",
 "C18":"deterministic simulation: seeded reload histories with nonce messages, reference model of routing checked on file contents",
 "C20":"deterministic simulation with load-failure injection: ordering invariants over the recorded module lifecycle history",
}
checks=[]
for p in props:
    pid=p["id"]
    if pid not in profiles.PROPS: continue
    spec=profiles.PROPS[pid]
    checks.append({
      "property_id":pid,
      "quick_cmd":"python3 sim/simctl.py check %s --tier quick"%pid,
      "thorough_cmd":"python3 sim/simctl.py check %s --tier thorough"%pid,
      "evidence_file":"/verif/evidence/%s.json"%pid,
      "replay_cmd_template":"python3 sim/simctl.py replay {path}",
      "engine":"simhost+simctl",
      "level_claimed":{"category":"exploration","text":"Seeded search over schedules, timer firings, read boundaries and fault sequences against the real daemon code running under a simulated clock and input pipe; every run is checked by an oracle derived from the property statement. A clean batch is evidence, not proof: the space of histories is unbounded, so exploration with measured reach (fault kinds fired, abstract states, probes) is the honest level.","design_ref":"DESIGN.md section 5 (%s), sections 2-4, 6-7"%pid},
      "level_note":"Trusted base: the controller's environment model and oracles (sim/*.py), libc inet_pton/fnmatch, gcc ASan/UBSan/LSan. Real: all of src/ and modules/, libevent. Simulated: clocks, stdin producer, signals, files. Bounded histories; see evidence 'rule'.",
      "technique":TECH.get(pid,"deterministic simulation with fault injection"),
    })
claimed={c["property_id"] for c in checks}
na=[{"property_id":p["id"],"reason":NA.get(p["id"],"check not built yet in this session; will be claimed once its simulation profile exists (see DESIGN.md section 5)")} for p in props if p["id"] not in claimed]
m={"version":1,"setup_cmd":"make -C /verif build",
 "hooks":{"guard":"IAUTHD_C_VERIF","enable":"-DIAUTHD_C_VERIF on the simhost compile line (Makefile); no guarded code exists in /repo: all seams are link-time (symbol interposition, --wrap, -Dmain=) or public API","baseline_off_cmd":"make -C /repo check","source_commits":[],"add_only":True},
 "engines":[{"name":"simhost+simctl","path":"/verif/sim","serves_properties":sorted(claimed),"kind_free_text":"in-process deterministic simulation host (C) driven in lock-step by a seeded Python controller with reference-model oracles, shrinker and replay"}],
 "checks":checks,"not_applicable":na,
 "notes":"See DESIGN.md. Known findings: /verif/known_findings.json. Replay files: /verif/findings/."}
json.dump(m,open('/verif/MANIFEST.json','w'),indent=1)
print(len(checks),"checks",len(na),"n/a")
