"""Protocol profile: environment actors (server, clients, services, operator,
clock), the seeded scheduler, and the executor that drives one simhost in
lock-step while the World model watches.

A plan is {"profile":"proto","cfg":{...},"ops":[...]} with SYMBOLIC ops, so it
stays meaningful when the shrinker removes steps: a service reply names the
client and 'cur'/'prev' instance, and its routing tag is resolved from the
queries observed so far when the op is executed.
"""
import zlib
import os, random, shutil, json
import host as H
from world import World, Violation, NS
from model import parse_out
from model import (gen_addr, mask_value, addr_value, groups_to_text, conf_quote, wellshaped, SVC_TYPES, BOOL_TRUE, BOOL_FALSE,
                   NICKLEN, USERLEN, HOSTLEN, REALLEN)

WORDCH = "abcdefghijklmnopqrstuvwxyzABCDEFGHIJKLMNOPQRSTUVWXYZ0123456789-_[]{}|^`"
HOSTCH = "abcdefghijklmnopqrstuvwxyz0123456789-"
SVC_POOL = ["login.example.org", "Login2.Example.NET", "bot.example.org", "combo.example.org",
            "ipr.example.org", "x.y", "drones-r-us.example.com", "x.y.z", "login.example",
            "s10.example.org", "s11.example.org", "s12.example.org", "s13.example.org", "s14.example.org"]
FAULT_KINDS = ["seg", "rd_eagain", "rd_eintr", "xr_lost", "xr_dup", "xr_stale", "xr_forged",
               "xr_unknown_svc", "xr_not_awaited", "xr_unlinked", "xr_malformed", "xr_notfinal",
               "cli_disconnect", "cli_reannounce_live", "cli_registered_early", "cli_hurry",
               "cli_pass_repeat", "cli_pass_illshaped", "timer_fire", "wall_jump", "junk",
               "cfg_same", "cfg_torn", "cfg_garbage", "cfg_missing", "cfg_eio", "cfg_burst",
               "cfg_timeout", "cfg_tables", "extreme_ids", "torn_next"]


def word(rnd, n, chars=WORDCH):
    return "".join(rnd.choice(chars) for _ in range(max(1, n)))


# ------------------------------------------------------------------ config

def gen_cfg(rnd, opts=None):
    opts = opts or {}
    modules = opts.get("modules") or rnd.choice(["iauth", "xquery", "xquery", "class", "class"])
    if opts.get("min_svc") and modules == "iauth":
        modules = rnd.choice(["xquery", "class"])
    cfg = {"modules": modules, "services": {}, "rules": {}, "timeout": 0, "logs": []}
    if modules != "iauth":
        nsvc = opts.get("nsvc", rnd.choice([0, 1, 1, 2, 2, 3, 4]))
        if "nsvc" not in opts and rnd.random() < 0.05:
            nsvc = rnd.randint(5, 13)       # service indices beyond one byte of the per-client masks
        nsvc = max(nsvc, opts.get("min_svc", 0))
        names = rnd.sample(SVC_POOL, nsvc)
        if "nsvc" not in opts and rnd.random() < opts.get("p_wide", 0.012):
            # more entries than the 32 services the module's per-client masks can tell apart
            names = rnd.sample(["W%02d.example.org" % k if k % 7 == 0 else "w%02d.example.org" % k for k in range(60)], rnd.randint(31, 36))
            cfg["wide_table"] = True
        for n in names:
            cfg["services"][n] = rnd.choice(SVC_TYPES)
        if cfg.get("wide_table") and rnd.random() < 0.5:
            # the entries at both ends of the table differ in kind: the first ones want a password, the ones past
            # the 32nd do not (so a client is often asked by the latter and not by the former)
            order = sorted(names, key=lambda n: n.lower())
            for n in order[:4]:
                cfg["services"][n] = rnd.choice(["login", "login-ipr"])
            for n in order[32:]:
                cfg["services"][n] = rnd.choice(["dronecheck", "combined"])
        if rnd.random() < 0.15 and not cfg.get("wide_table"):
            cfg["services"]["proxy.example.org"] = rnd.choice(["proxycheck", "LOGINX", "none"])
    if modules == "class":
        cfg["rules"] = gen_rules(rnd, sorted(cfg["services"]))
        if cfg.get("wide_table") and rnd.random() < 0.7:
            # the first rule in name order asks for an OK from the service in the last (or another boundary) table slot
            order = sorted(cfg["services"], key=lambda n: n.lower())
            cfg["rules"]["!first"] = {"class": "boundary", "xreply_ok": order[min(len(order) - 1, rnd.choice([31, 31, 31, 30, 15, 16]))]}
    cfg["timeout"] = opts.get("timeout", rnd.choice([0, 0, 5, 20, 30, 90, 3600, 7200]))
    if "timeout" not in opts and rnd.random() < 0.04:
        cfg["timeout"] = 0
        cfg["timeout_text"] = rnd.choice(["1w", "soon", "5x", "1h30"+"q"])
    if rnd.random() < opts.get("p_logs", 0.4):
        cfg["logs"] = gen_logs(rnd)
    if rnd.random() < 0.1:
        # the operator wrote sections (and rules) in several blocks: blocks of one name are one object
        cfg["split"] = rnd.randrange(1, 1 << 30)
    if rnd.random() < 0.12:
        cfg["keycase"] = rnd.randrange(1, 1 << 30)      # some setting names of the rules are written Capitalised or in CAPITALS
    return cfg


def gen_rules(rnd, svcnames):
    names = rnd.sample(["r1", "R2", "r3", "Ra", "rb", "RC", "a1", "Z9", "m5", "_x", "B-1",
                        "n" * 62, "N" * 63, "q" * 64, "Q" * 65], rnd.randint(0, 6))
    rules = {}
    for nm in names:
        r = {}
        if rnd.random() < 0.7:
            r["class"] = rnd.choice(["c1", "c2", "trusted", "Opers", "x" * rnd.choice([3, 40]), "",
                                     # at and around the size of the request's class field (CLASSLEN 63)
                                     "".join(rnd.choice("abcdefghijklmnopqrstuvwxyz") for _ in range(rnd.choice([61, 62, 63, 64, 65, 100])))])
        if rnd.random() < 0.3:
            r["account"] = rnd.choice(["oper", "op*", "o?er", "*", "nobody", "oper:1", "acct*", "?*", "op[e3]r", "[a-f]*", "acct[0-9]", "n[!a-n]body"])
        if rnd.random() < 0.4:
            r["address"] = gen_rule_address(rnd)
        if rnd.random() < 0.3:
            r["username"] = rnd.choice(["joe", "j*", "~*", "*", "?oe", "id*", "j[ao]e", "op[0-9]", "[~]joe", "u\\*r", "[!~]*",
                                        # at the size of the user-name field (USERLEN 10): the last character decides
                                        "tencharsid", "ninechars", "?????????z", "ninechar[st]", "*yz"])
        if rnd.random() < 0.3:
            r["hostname"] = rnd.choice(["*.example.org", "trusted.example.org", "*", "h?st*", "*.net", "gw[12].example.org",
                                        "dotted\\.example.net", "[a-c]*.org", "h[!0-9]st.net", "star\\*.org"])
        if rnd.random() < 0.3 and svcnames:
            s = rnd.choice(svcnames + ["none.example.org"])
            if len(svcnames) >= 32 and rnd.random() < 0.6:
                s = sorted(svcnames, key=lambda n: n.lower())[rnd.choice([31, 31, 30, 7, 15, 16])]     # slots at mask boundaries
            r["xreply_ok"] = rnd.choice([s, s.upper(), s.lower()])
        if rnd.random() < 0.3:
            r["trust_username"] = rnd.choice(BOOL_TRUE + BOOL_FALSE)
        rules[nm] = r
    return rules


def gen_rule_address(rnd):
    """An address criterion: CIDR or wildcard, v4 or v6, over a fixed pool (so that several rules of one table
    overlap), over arbitrary networks with every prefix length, and over networks whose network part is all
    zero (0.0.0.0/0, 0.*, 0::/1 ...)."""
    k = rnd.random()
    if k < 0.45:
        base = rnd.choice(["10.1.2.3", "10.1.0.0", "192.168.7.9", "2001:db8:0:1::5", "2001:db8::", "10.1.128.0"])
        if ":" in base:
            return (base + "/%d" % rnd.choice([16, 17, 31, 32, 33, 47, 48, 49, 63, 64, 65, 127, 128])
                    if rnd.random() < 0.8 else rnd.choice(["2001:db8:*", "2001:*", "*"]))
        return (base + "/%d" % rnd.choice([8, 15, 16, 17, 23, 24, 25, 31, 32])
                if rnd.random() < 0.8 else rnd.choice(["10.1.*", "10.*", "192.168.7.*", "*"]))
    if k < 0.65:
        return rnd.choice(["0.0.0.0/0", "0.0.0.0/1", "0.*", "0.0.0.0/8", "0.0.0.0/%d" % rnd.randint(0, 7), "128.0.0.0/1",
                           "0::/0", "0::/1", "0::/%d" % rnd.randint(2, 96), "0:0:*", "8000::/1", "0::ffff:0:0/96",
                           "0.1.*", "0.128.0.0/9"])
    if rnd.random() < 0.5:
        b = [rnd.choice([0, 1, 10, 127, 128, 192, 255, rnd.randrange(256)]) for _ in range(4)]
        if rnd.random() < 0.25:
            n = rnd.randint(1, 3)
            return ".".join(str(x) for x in b[:n]) + ".*"
        return "%d.%d.%d.%d/%d" % (b[0], b[1], b[2], b[3], rnd.randint(0, 32))
    groups = [rnd.choice([0, 0, 1, 0x8000, 0xffff, 0x2001, 0xdb8, rnd.randrange(65536)]) for _ in range(8)]
    if groups[0] == 0:
        groups[0] = rnd.choice([1, 0x2001, 0xfe80])
    if rnd.random() < 0.25:
        n = rnd.randint(1, 7)
        return ":".join("%x" % g for g in groups[:n]) + ":*"
    return groups_to_text(groups, rnd, rnd.choice(["canon", "full"])) + "/%d" % rnd.randint(0, 128)


def addr_near_rule(rnd, rules):
    """-> (text, value) of a client address built from one rule's address criterion: inside the network, or
    differing from it in exactly one bit (the last network bit, the first host bit, or any bit); None when no
    usable rule exists or the result is a form the announce generator avoids."""
    cands = [rl["address"] for _, rl in sorted(rules.items()) if "address" in rl]
    if not cands:
        return None
    try:
        v, bits = mask_value(rnd.choice(cands))
    except Exception:
        return None
    if v is None:
        return None
    n = int.from_bytes(v, "big")
    host = 128 - bits
    if host:
        n = (n >> host << host) | rnd.choice([0, (1 << host) - 1, rnd.getrandbits(host), rnd.getrandbits(host)])
    k = rnd.random()
    if k < 0.2 and bits:
        n ^= 1 << (128 - bits)              # last network bit: narrowly outside
    elif k < 0.3 and host:
        n ^= 1 << (host - 1)                # first host bit: still inside
    elif k < 0.4:
        n ^= 1 << rnd.randrange(128)
    val = n.to_bytes(16, "big")
    if val[:12] == b"\0" * 10 + b"\xff\xff":
        b = val[12:]
        if b[0] == 0 and b[1] == 0:
            return None
        return "%d.%d.%d.%d" % tuple(b), val
    groups = [int.from_bytes(val[i:i + 2], "big") for i in range(0, 16, 2)]
    if groups[:5] == [0] * 5 and groups[5] in (0, 0xffff):
        return None                         # v4-compatible / odd mapped forms: left to gen_addr
    txt = groups_to_text(groups, rnd, rnd.choice(["canon", "full", "pad"]))
    if addr_value(txt) != val:
        return None
    return txt, val


def glob_instance(rnd, pat, limit):
    """A string built from a glob pattern: an instance of it ('*' -> 0-5 characters, '?' -> one, a bracket
    expression -> one of its characters (or one outside it when negated), a backslash escape -> the escaped
    character), or a near miss (one letter in the other case, last character dropped, one character added at
    either end, a bracket position filled with a character from outside the set)."""
    out = []
    j = 0
    miss_bracket = rnd.random() < 0.15
    while j < len(pat):
        ch = pat[j]
        if ch == "*":
            out.append(word(rnd, rnd.randint(1, 5), HOSTCH) if rnd.random() < 0.8 else "")
        elif ch == "?":
            out.append(rnd.choice(HOSTCH))
        elif ch == "\\" and j + 1 < len(pat):
            j += 1
            out.append(pat[j])
        elif ch == "[" and "]" in pat[j + 2:]:
            end = pat.index("]", j + 2)
            body = pat[j + 1:end]
            neg = body[:1] in "!^"
            if neg:
                body = body[1:]
            members = set()
            k = 0
            while k < len(body):
                if k + 2 < len(body) and body[k + 1] == "-":
                    members |= set(chr(c) for c in range(ord(body[k]), ord(body[k + 2]) + 1))
                    k += 3
                else:
                    members.add(body[k])
                    k += 1
            outside = [c for c in HOSTCH if c not in members] or ["_"]
            inside = sorted(members) or ["x"]
            out.append(rnd.choice(outside if (neg != miss_bracket) else inside))
            j = end
        else:
            out.append(ch)
        j += 1
    s = "".join(out)
    k = rnd.random()
    if k < 0.12 and any(c.isalpha() for c in s):
        j = rnd.choice([j for j, c in enumerate(s) if c.isalpha()])
        s = s[:j] + s[j].swapcase() + s[j + 1:]
    elif k < 0.2 and len(s) > 1:
        s = s[:-1]
    elif k < 0.28:
        s = s + rnd.choice("x0.")
    elif k < 0.34:
        s = rnd.choice("x0~") + s
    return s[:limit] if s else "x"


def rule_values(rules, key):
    return [rl[key] for _, rl in sorted(rules.items()) if key in rl]


def gen_logs(rnd):
    ents = []
    for _ in range(rnd.randint(1, 4)):
        fac = rnd.choice(["*", "*", "core", "config", "iauth", "iauth_xquery", "iauth_class"])
        sev = rnd.choice(["*", ">=debug", ">=info", ">=warning", "error,warning", "<=command", "debug"])
        ents.append(("%s.%s" % (fac, sev), "log%d" % rnd.randrange(3)))
    if rnd.random() < 0.2:
        # an entry the daemon cannot make sense of: it says so when it starts (and at every reload of the section)
        ents.insert(rnd.randrange(len(ents) + 1), (rnd.choice(["core.bogus", "*.>>info", "iauth.inf", "nosuchfacility.nosuchlevel"]), "log%d" % rnd.randrange(3)))
    return ents


def render_cfg(cfg, scratch, libpath=None):
    mods = {"iauth": "iauth", "xquery": "iauth_xquery", "class": "iauth_class"}[cfg["modules"]]
    out = ['core {', ' library_path ( "%s" )' % (libpath or "lib"), ' modules ( %s )' % mods, '}']
    if cfg.get("timeout_text"):
        # a value the daemon cannot read as an interval: it says so at start-up and goes without a timeout
        out.append('iauth {\n timeout %s\n}' % conf_quote(cfg["timeout_text"]))
    else:
        out.append('iauth {\n timeout %s\n}' % cfg["timeout"] if cfg.get("timeout") else 'iauth {\n}')
    # omit_xquery / omit_class: the file does not mention the (empty) section at all
    # cfg["split"]: a section (a rule) is written as two blocks of the same name, which denote one object holding
    # the members of both; the partition is a function of the split seed and the member's name, so that a reload
    # that edits a table keeps the file's shape
    sp = cfg.get("split")

    def part(key):
        return 0 if not sp else (zlib.crc32(("%d/%s" % (sp, key)).encode()) >> 3) & 1
    late = []
    if cfg["modules"] != "iauth" and not (cfg.get("omit_xquery") and not cfg["services"]):
        blocks = [[], []]
        for n, t in cfg["services"].items():
            blocks[part("s/" + n)].append(" %s %s" % (conf_quote(n), conf_quote(t)))
        out += ["iauth_xquery {"] + blocks[0] + ["}"]
        if sp:
            late += ["iauth_xquery {"] + blocks[1] + ["}"]
    if cfg["modules"] == "class" and not (cfg.get("omit_class") and not cfg["rules"]):
        blocks = [[' dummy "not-an-object"'], []]
        for n, r in cfg["rules"].items():
            where = part("r/" + n)
            crit = [[], []]
            for k, v in r.items():
                kc = cfg.get("keycase")
                if kc and zlib.crc32(("%d/%s/%s" % (kc, n, k)).encode()) % 3 == 0:
                    k = k.capitalize() if zlib.crc32(("%d/%s" % (kc, k)).encode()) % 2 else k.upper()     # setting names are not case-sensitive
                crit[part("k/%s/%s" % (n, k.lower())) if part("x/" + n) else 0].append("  %s %s" % (k, conf_quote(v)))
            blocks[where] += [" %s {" % conf_quote(n)] + crit[0] + [" }"]
            if crit[1]:
                # the rest of the rule follows in a block of its own, in this or in the section's other block
                blocks[part("w/" + n)] += [" %s {" % conf_quote(n)] + crit[1] + [" }"]
        out += ["iauth_class {"] + blocks[0] + ["}"]
        if sp:
            late += ["iauth_class {"] + blocks[1] + ["}"]
    if cfg.get("logs"):
        blocks = [[], []]
        for j, (name, f) in enumerate(cfg["logs"]):
            # (not split by name: a logs key may be listed twice on purpose, the later entry then replaces the earlier)
            blocks[0].append(' %s "file:%s"' % (conf_quote(name), f))     # relative: the daemon's cwd is the scratch dir
        out += ["logs {"] + blocks[0] + ["}"]
    out += late
    return "\n".join(out) + "\n"


# --------------------------------------------------------------- generator

def r_ids_alias(rnd):
    """15% of the runs: some ids are congruent to others modulo a power of two (tables indexed by id % 2^k)"""
    return rnd.random() < 0.15


class Gen:
    """Seeded online scheduler: picks the next environment action from what
    is enabled in the observed world state."""

    def __init__(self, rnd, cfg, opts=None):
        o = opts or {}
        self.rnd = rnd
        self.cfg = cfg
        self.o = o
        self.max_steps = o.get("steps", rnd.choice([30, 60, 120, 250, 400]))
        self.total = o.get("clients", rnd.choice([1, 2, 4, 8, 15, 40]))
        self.maxconc = o.get("conc", rnd.choice([1, 2, 3, 5, 8]))
        ids = rnd.sample(range(0, 60), rnd.randint(2, 6))
        if "conc" not in o and rnd.random() < 0.06:
            # a crowd: many requests live at once (table depth, vector growth, counts crossing powers of two)
            ids = rnd.sample(range(0, 300), rnd.choice([17, 33, 65, 70]))
            self.maxconc = len(ids) - rnd.choice([0, 1, 3])
            self.total = max(self.total, len(ids) + rnd.choice([0, 5, 40]))
            self.max_steps = max(self.max_steps, 250)
            self.crowd = True
        self.faults = set(f for f in FAULT_KINDS if rnd.random() < 0.5) if not o.get("no_faults") else set()
        if "faults" in o:
            self.faults = set(o["faults"])
        if cfg.get("wide_table"):
            self.faults.discard("cfg_tables")       # (which entries get a table slot is only modelled for a fresh start)
            # dozens of queries per client: few clients, prompt and mostly positive answers, enough steps to finish
            self.total = min(self.total, 4)
            self.maxconc = min(self.maxconc, 2)
            self.max_steps = max(self.max_steps, 500)
            self.wide = True
        if r_ids_alias(rnd):
            base = ids[0]
            ids[1:3] = [base + rnd.choice([1024, 1024, 1024, 256, 512, 2048, 4096, 65536, 1 << 20]) * rnd.randint(1, 3) for _ in ids[1:3]]
            if rnd.random() < 0.5:
                ids = ids[:3]       # mostly the colliding ids are in use
        if "extreme_ids" in self.faults:
            ids[:2] = rnd.sample([2147483647, -2147483648, 0, -2, 2147483646], 2)
        self.ids = ids
        self.lenmode = o.get("lenmode") or rnd.choice(["short", "short", "limit", "over"])
        self.p_reply = o.get("p_reply", rnd.choice([0.1, 0.4, 0.8, 0.95]))
        self.scripts = {}
        self.started = 0
        self.n = 0
        self.phase = 0
        kinds = ["OK", "OKA", "OKA", "OKE", "NO", "AGAIN", "MORE", "UNL"]
        self.policy = {}
        for s in sorted(cfg["services"]):
            wts = [rnd.choice([0, 1, 1, 3]) for _ in kinds]
            if sum(wts) == 0:
                wts[0] = 1
            self.policy[s] = (kinds, wts)
        if cfg.get("wide_table"):
            self.p_reply = 0.95
            for sname in list(self.policy):
                self.policy[sname] = (kinds, [6, 2, 2, 0, 0, 0, 0, 0] if rnd.random() < 0.9 else [3, 1, 1, 1, 0, 1, 1, 1])
        self.addr_family = rnd.choice([None, None, "v4", "v6"])
        self.no_compat = cfg["modules"] == "class"
        self.w_adv = rnd.choice([0.3, 1, 3]) if cfg.get("timeout") else rnd.choice([0, 0.3])
        self.fired = {}
        # service / rule tables as currently in force (changed by cfg_tables reloads); the plan keeps the initial cfg
        self.svc_now = dict(cfg["services"])
        self.rules_now = json.loads(json.dumps(cfg.get("rules", {})))
        self.svc_ever = set(cfg["services"])
        self.w_tables = rnd.choice([0.1, 0.25, 0.6])

    def fire(self, k):
        self.fired[k] = self.fired.get(k, 0) + 1

    def L(self, lim):
        r = self.rnd
        return {"short": r.randint(1, min(8, lim)), "limit": lim, "over": lim + r.randint(1, 3)}[self.lenmode]

    def new_script(self):
        r = self.rnd
        nick = word(r, self.L(NICKLEN))
        ik = r.random()
        if ik < 0.55:
            ident = ("u", word(r, self.L(USERLEN)))
        elif ik < 0.75:
            ident = ("u", "~" + word(r, max(1, self.L(USERLEN) - 1)))
        elif ik < 0.9:
            ident = ("u", None)
        else:
            ident = ("u", "")
        claimed = word(r, self.L(USERLEN))
        if r.random() < 0.06:
            # the client's own user name starts with (or is nothing but) the "no ident" marker
            claimed = r.choice(["~", "~", "~" + word(r, 3), "~~", "~~" + word(r, 2)])
            self.fire("claimed_username_with_tilde")
        real = " ".join(word(r, r.randint(1, 9)) for _ in range(r.randint(1, 8)))[:self.L(REALLEN)]
        if r.random() < 0.1:
            real = r.choice(["", ":colon first", " lead", "trail ", "caf\xe9 \xff", "%s %d", "50%off today", "%n%n", "100%"])
        host = (word(r, self.L(HOSTLEN) - 4, HOSTCH) + r.choice([".org", ".net"])) if r.random() < 0.75 else None
        # client data built from the rule table in force: instances and near misses of its globs
        if self.cfg["modules"] == "class" and self.lenmode != "over":
            pats = rule_values(self.rules_now, "username")
            if pats and r.random() < 0.45:
                u = glob_instance(r, r.choice(pats), USERLEN)
                if u.startswith("~") and r.random() < 0.5:
                    ident, claimed = ("u", r.choice([None, ""])), (u[1:] or "x")
                else:
                    ident = ("u", u)
                self.fire("ident_near_rule")
            pats = rule_values(self.rules_now, "hostname")
            if pats and r.random() < 0.45:
                host = glob_instance(r, r.choice(pats), HOSTLEN)
                self.fire("host_near_rule")
        if self.cfg["modules"] == "class" and r.random() < 0.08 and \
                any(str(rl.get("trust_username", "")).lower() in [b.lower() for b in BOOL_TRUE] for rl in self.rules_now.values()):
            # a rule trusts the client's own user name when there is no ident answer: that name is nothing but the
            # "no ident" marker (or the marker twice)
            claimed = r.choice(["~", "~", "~~"])
            ident = r.choice([("u", "~" + word(r, 3)), ("u", None), ("u", ""), ident])
            self.fire("trusted_username_is_a_bare_tilde")
        evs = [("N", host) if host else ("d", None), ident, ("n", nick), ("U", [claimed, real])]
        if r.random() < 0.25:
            evs.append(("n", word(r, self.L(NICKLEN))))
        if r.random() < 0.07:
            # the client sends USER again with other (shorter or longer) names: the later line counts
            c2 = r.choice([claimed[:max(1, len(claimed) // 3)], word(r, 2), claimed + "x", word(r, self.L(USERLEN))])
            r2 = r.choice([real[:max(0, len(real) // 3)], "R", real + " jr", word(r, 5)])
            evs.append(("U", [c2, r2]))
            self.fire("second_user_line")
        for _ in range(r.choice([0, 0, 1, 1, 1, 2])):
            evs.append(("P", self.gen_pass(True)))
        if "cli_pass_illshaped" in self.faults and r.random() < 0.3:
            evs.append(("P", self.gen_pass(False)))
        r.shuffle(evs)
        if "cli_hurry" in self.faults and r.random() < 0.3:
            evs.insert(r.randrange(len(evs) + 1), ("H", None))
        if "cli_disconnect" in self.faults and r.random() < 0.3:
            evs.insert(r.randrange(len(evs) + 1), ("D", None))
        if "cli_registered_early" in self.faults and r.random() < 0.15:
            evs.insert(r.randrange(len(evs) + 1), ("T", None))
        return evs

    def gen_pass(self, good):
        r = self.rnd
        if good:
            m = r.choice(["+", "+x", "+!", "-!", "+x!", "-x", "+x-x", "+!-!", "-", "+!x", "+x-!", "-x+!",
                          "-x+x", "-x!+x", "+-x+x", "-!+!", "+x-x+x", "-x!+x!", "+!-!+!"])
            acct = word(r, r.randint(1, 12), "abcdefghijklmnopqrstuvwxyz0123456789")
            pw = " ".join(word(r, r.randint(1, 8)) for _ in range(r.choice([1, 1, 1, 2, 3])))
            if r.random() < 0.04:
                pw = r.choice(["pa%%ss", "100%", "%s%s%s", "%n", "a%dz %x", "50%off"]) + r.choice(["", " " + pw])
            if self.lenmode == "over" and r.random() < 0.3:
                pw = word(r, 520)
            elif self.lenmode == "limit" and r.random() < 0.3:
                pw = word(r, 511 - len(acct) - 1)
            return m + r.choice([" ", " ", "  "]) + acct + " " + pw
        return r.choice(["plain", "+x", "+ onlyone", "nomodes acct pw", "", "-!", "+x!  ", "x+ a b", " +x a b",
                         word(r, 12), "two words"])

    def reply_text(self, svc):
        r = self.rnd
        if svc not in self.policy:      # a service added by a later reload, or an unknown name
            ks = ["OK", "OKA", "OKA", "OKE", "NO", "AGAIN", "MORE", "UNL"]
            ws = [r.choice([0, 1, 1, 3]) for _ in ks]
            self.policy[svc] = (ks, ws if sum(ws) else [1] + ws[1:])
        kinds, wts = self.policy[svc]
        k = r.choices(kinds, wts)[0]
        if getattr(self, "retired_refuses", None) == svc and r.random() < 0.4:
            k = "NO"
            self.retired_refuses = None
        txt = self.free_text()
        if k == "OK":
            return "X", "OK"
        if k == "OKA":
            a = word(r, r.randint(1, 12), "abcdefghijklmnopqrstuvwxyzABCDEFXYZ0123456789")
            pats = rule_values(self.rules_now, "account") if self.cfg["modules"] == "class" else []
            if pats and r.random() < 0.4:
                a = glob_instance(r, r.choice(pats).split(":")[0], 12)
                self.fire("account_near_rule")
            a = r.choice([a, a + ":%d" % r.randrange(10 ** 9), a + ":%d:%d" % (r.randrange(10 ** 9), r.randrange(10 ** 6)),
                          a, "oper", "oper:1:2", "nobody", a + "x" * 70,
                          (a + ":" + "9" * 70)[:r.choice([62, 63, 64, 65])]])
            return "X", "OK " + a + r.choice(["", "", " trailing words"])
        if k == "OKE":
            return "X", "OK "
        if k == "NO":
            return "X", "NO " + txt
        if k == "AGAIN":
            return "X", "AGAIN " + txt
        if k == "MORE":
            return "X", "MORE " + txt
        return "x", "Not linked"

    def free_text(self):
        r = self.rnd
        k = r.random()
        if k < 0.6:
            return " ".join(word(r, r.randint(1, 9)) for _ in range(r.randint(1, 6)))
        if k < 0.7:
            return r.choice([":leading colon", "%s%n%d percent", "", " ", "tab\there", "caf\xe9 \xfe\xff", "a  b"])
        if k < 0.8:
            return word(r, r.choice([100, 250, 400]), WORDCH + "   ")
        if k < 0.83:
            # longer than the daemon's outgoing line buffer
            return word(r, r.choice([950, 990, 1000, 1010, 1023, 1024, 1100, 2000]), WORDCH + "   ").strip() or "x"
        return "".join(chr(r.choice(list(range(32, 127)) + list(range(160, 256)))) for _ in range(r.randint(1, 60)))

    # --- the scheduler ----------------------------------------------------
    def next(self, w):
        r = self.rnd
        self.w_ref = w
        if getattr(self, "queue", None):
            return self.queue.pop(0)
        self.n += 1
        if self.n > self.max_steps:
            return None
        acts = []
        if self.started < self.total and len(w.live) < self.maxconc:
            # in crowd mode announcements keep pace with the crowd until it has gathered once
            boost = 3.0 * len(w.live) if getattr(self, "crowd", False) and not getattr(self, "crowd_full", False) else 0.0
            acts.append((4.0 + boost, "new"))
        elif getattr(self, "crowd", False):
            self.crowd_full = True
        if "cli_reannounce_live" in self.faults and w.live and self.started < self.total:
            acts.append((0.3, "renew"))
        for cid in sorted(w.live):
            if self.scripts.get(cid):
                acts.append((3.0, ("cli", cid)))
            i = w.live[cid]
            for s in sorted(i.awaiting):
                if i.awaiting[s]:
                    acts.append((6.0 * self.p_reply, ("reply", cid, s)))
            if i.challenge and i.creds is not None:
                acts.append((2.0, ("chalresp", cid)))
            if not self.scripts.get(cid) and not any(i.awaiting.values()):
                acts.append((0.4, ("giveup", cid)))
        # lines of the server that cross the daemon's verdict on the wire: more data, a password, the registration
        # or disconnect notice for a client that has just been decided (the daemon must drop them silently)
        for i in w.all[-6:]:
            if i.ended in ("D", "R", "k") and i.cid not in w.live and not getattr(i, "crossed", 0) >= 2:
                acts.append((2.5, ("crossing", i)))
        if self.w_adv:
            acts.append((self.w_adv, "adv"))
        acts.append((0.5, "stats"))
        acts.append((0.15, "config"))
        acts.append((self.o.get("w_audit", 0.15), "audit"))
        if "junk" in self.faults:
            acts.append((0.8, "noise"))
        if self.svc_ever and w.tags:
            for f, wt in (("xr_dup", 0.5), ("xr_stale", 0.6), ("xr_forged", 0.4), ("xr_unknown_svc", 0.3),
                          ("xr_not_awaited", 0.4), ("xr_malformed", 0.3), ("xr_notfinal", 0.4)):
                if f in self.faults:
                    acts.append((wt, ("badreply", f)))
            if getattr(self, "stray_next", 0) > 0 and any(a for i in w.live.values() for a in i.awaiting.values()):
                acts.append((6.0, ("badreply", "xr_not_awaited")))
        if "wall_jump" in self.faults:
            acts.append((0.1, "wall"))
        for f, wt in (("cfg_same", 0.15), ("cfg_torn", 0.1), ("cfg_garbage", 0.1), ("cfg_missing", 0.05),
                      ("cfg_eio", 0.05), ("cfg_burst", 0.05), ("cfg_timeout", 0.1)):
            if f in self.faults:
                acts.append((wt, ("reload", f)))
        if "cfg_tables" in self.faults and self.cfg["modules"] != "iauth":
            most = max([sum(1 for i in w.live.values() if i.awaiting.get(n)) for n in self.svc_now] or [0])
            acts.append((self.w_tables * (1 if most == 0 else 2 if most == 1 else 5), ("reload", "cfg_tables")))
        wts = [a[0] for a in acts]
        a = r.choices([a[1] for a in acts], wts)[0]
        op = self.make(a, w)
        if op is None:
            return {"op": "stats"}
        return self.decorate(op)

    def decorate(self, op):
        r = self.rnd
        if op["op"] in ("announce", "cli", "xreply", "noise", "stats", "config"):
            if "seg" in self.faults and r.random() < 0.25:
                op["seg"] = sorted(r.random() for _ in range(r.choice([1, 1, 2, 4])))
                self.fire("seg")
            if getattr(self, "one_socket", False) and op["op"] in ("announce", "cli", "xreply") and not op.get("seg") and not op.get("torn") and r.random() < 0.25:
                # the line travels in a burst of requests for reports, which the slow peer does not read for a while
                op["pad"] = [r.choice([4, 8, 15, 30]), r.choice([0, 0, 4, 10])]
                op["padkind"] = "stats"
            if r.random() < 0.15:
                op["crlf"] = True
            if "torn_next" in self.faults and op["op"] in ("announce", "cli", "xreply") and not op.get("pad") and r.random() < 0.07:
                # the write that carries this line ends in the middle of the server's next line (a statistics
                # request), whose rest arrives later - possibly only after time has passed and timers have fired
                form = r.choice(["stats", "stats", "stats2"])
                full = "-1 ? " + form
                t = self.cfg.get("timeout") or 0
                op["torn"] = {"k": r.choice([1, 2, 3, 5, len(full) - 1, len(full)]), "form": form,
                              "advs": [r.choice([NS, NS, 3 * NS, (t + 1) * NS]) for _ in range(r.choice([0, 1, 1, 2]))]}
                self.fire("torn_next")
            if "rd_eagain" in self.faults and r.random() < 0.08:
                op["rdf"] = "EAGAIN"
            elif "rd_eintr" in self.faults and r.random() < 0.08:
                op["rdf"] = "EINTR"
        return op

    def make(self, a, w):
        r = self.rnd
        if a == "new" or a == "renew":
            if a == "new":
                free = [c for c in self.ids if c not in w.live]
                if not free:
                    return None
                cid = r.choice(free)
                if getattr(self, "crowd", False) and len(w.live) in (15, 16, 31, 32, 63, 64):
                    self.fire("crowd_%d_live" % (len(w.live) + 1))
            else:
                cid = r.choice(sorted(w.live))
                self.fire("cli_reannounce_live")
            self.started += 1
            self.scripts[cid] = self.new_script()
            fam = self.addr_family
            txt, val = gen_addr(r, fam)
            while self.no_compat and txt.startswith("0::") and "." in txt and "ffff" not in txt:
                txt, val = gen_addr(r, fam)
            if self.cfg["modules"] == "class" and r.random() < 0.45:
                near = addr_near_rule(r, self.rules_now)
                if near:
                    txt, val = near
                    self.fire("addr_near_rule")
            op = {"op": "announce", "cid": cid, "addr": txt, "port": r.choice([1, 1024, 6667, 65535, r.randrange(1, 65536)]),
                  "laddr": r.choice(["0::1", "127.0.0.1", "192.0.2.1"]), "lport": r.choice([6667, 7000, 7701])}
            last = getattr(self, "last_announce", {})
            if cid in last and r.random() < 0.3:
                # the id comes back from the very same endpoints (a reconnect), or from the same address
                k = r.random()
                op = dict(last[cid]) if k < 0.6 else dict(op, addr=last[cid]["addr"]) if k < 0.8 else dict(last[cid], port=op["port"])
                self.fire("announce_same_endpoints" if k < 0.6 else "announce_same_address")
            last[cid] = op
            self.last_announce = last
            # rarely: so many other clients come and go first that the daemon's instance counter has advanced by
            # exactly 2^16 (or 2^8) since this id was last announced (counters kept in a narrow type wrap around)
            idx = getattr(self, "ann_index", {})
            if cid in idx and "xr_stale" in self.faults and not getattr(self, "wrapped", False) and r.random() < self.o.get("p_wrap", 0.03):
                self.wrapped = True
                span = r.choice([65536, 65536, 256])
                n = span - 1 - (w.announces - idx[cid])
                if 0 < n <= 70000:
                    self.queue = [op]
                    self.fire("serial_wrap_%d" % span)
                    idx[cid] = w.announces + n + 1
                    self.ann_index = idx
                    return {"op": "filler", "n": n}
            idx[cid] = w.announces + 1
            self.ann_index = idx
            return op
        if a == "adv":
            dl = sorted(i.deadline - w.now for i in w.live.values() if i.deadline is not None and not i.expired)
            # deadlines of finished instances whose id is live again: a timer that outlived its request would fire here
            stale = sorted(i.deadline - w.now for i in w.all if i.ended is not None and i.deadline is not None and not i.expired
                           and i.deadline > w.now and i.cid in w.live)
            if stale and (not dl or r.random() < 0.5):
                dl = stale
            k = r.random()
            if dl and k < 0.5:
                ns = dl[0] + r.choice([0, 0, -1, 1, NS])
                if ns <= 0:
                    ns = 1
                self.fire("timer_fire")
            elif k < 0.9:
                ns = r.choice([1, 2, 3, 5, 11]) * NS + r.choice([0, 0, 1, 999999999])
            else:
                ns = r.choice([1, 1000, 10 ** 6])
            return {"op": "adv", "ns": ns}
        if a == "wall":
            self.fire("wall_jump")
            return {"op": "wall", "ns": r.choice([1, -1]) * r.choice([1, 3600, 86400, 86400 * 3650]) * NS}
        if a == "stats":
            return {"op": "stats", "form": r.choice(["stats", "stats", "stats2"])}
        if a == "config":
            return {"op": "config"}
        if a == "audit":
            return {"op": "audit"}
        if a == "noise":
            self.fire("junk")
            return {"op": "noise", "line": self.noise_line(w)}
        if a[0] == "cli":
            cid = a[1]
            ev, arg = self.scripts[cid].pop(0)
            if ev == "P" and wellshaped(arg) and w.live[cid].creds is not None:
                self.fire("cli_pass_repeat")
            if ev == "H":
                self.fire("cli_hurry")
            if ev == "D":
                self.fire("cli_disconnect")
            if ev == "T":
                self.fire("cli_registered_early")
            if ev == "P" and not wellshaped(arg):
                self.fire("cli_pass_illshaped")
            return {"op": "cli", "cid": cid, "ev": ev, "arg": arg}
        if a[0] == "crossing":
            i = a[1]
            i.crossed = getattr(i, "crossed", 0) + 1
            self.fire("line_crossing_the_verdict")
            ev = r.choice(["P", "P", "n", "u", "U", "H", "T", "D", "N"])
            arg = {"P": self.gen_pass(True), "n": word(r, 6), "u": word(r, 5), "U": [word(r, 5), "Real Name"], "N": "late.example.org"}.get(ev)
            return {"op": "cli", "cid": i.cid, "ev": ev, "arg": arg}
        if a[0] == "chalresp":
            return {"op": "cli", "cid": a[1], "ev": "P", "arg": r.choice(["Mellon", "response with words", "+x looks shaped", word(r, 20)])}
        if a[0] == "giveup":
            return {"op": "cli", "cid": a[1], "ev": r.choice(["D", "D", "H"]), "arg": None}
        if a[0] == "reply":
            _, cid, s = a
            kind, text = self.reply_text(s)
            if "xr_unlinked" not in self.faults and kind == "x":
                kind, text = "X", "OK"
            if kind == "x":
                self.fire("xr_unlinked")
            if "xr_lost" in self.faults and r.random() < 0.1:
                self.fire("xr_lost")
                return {"op": "adv", "ns": NS}
            return {"op": "xreply", "cid": cid, "inst": "cur", "svc": s, "kind": kind, "text": text}
        if a[0] == "badreply":
            f = a[1]
            self.fire(f)
            svcs = sorted(self.svc_ever)
            cids = sorted(w.live) or self.ids
            cid = r.choice(cids)
            kind, text = self.reply_text(r.choice(svcs))
            text = r.choice([text, "OK stolen:1", "NO go away", "MORE riddle me this"])
            op = {"op": "xreply", "cid": cid, "inst": "cur", "svc": r.choice(svcs), "kind": kind, "text": text}
            if f == "xr_not_awaited":
                self.stray_next = getattr(self, "stray_next", 0) - 1
                waiting = sorted(c for c, i in w.live.items() if any(i.awaiting.values()))
                if waiting and r.random() < 0.7:
                    # a client that is waiting for somebody else's answer, named by a configured service it was
                    # never sent to (preferably a neighbour of the awaited one in the table)
                    op["cid"] = r.choice(waiting)
                    i = w.live[op["cid"]]
                    order = sorted(self.svc_now, key=lambda n: n.lower())
                    rest = [n for n in order if n not in i.awaiting]
                    aw = [n for n in order if i.awaiting.get(n)]
                    near = [n for n in rest if any(abs(order.index(n) - order.index(a)) == 1 for a in aw)]
                    if rest:
                        op["svc"] = r.choice(near if near and r.random() < 0.6 else rest)
                        self.fire("xr_never_asked_service_names_waiting_client")
            if f == "xr_stale":
                op["cid"] = r.choice(self.ids)
                op["inst"] = r.choice(["prev", "prev", "prev:1", "prev:2", "prev:5"])
            elif f == "xr_forged":
                op["inst"] = "forged:" + r.choice(["nounderscore", "trail", "nonhex", "empty", "serial+1", "serial-1",
                                                   "otherid", "under2", "noserial", "serial-trunc", "serial-extend", "id-extend", "id-garbage", "id-garbage"])
            elif f == "xr_unknown_svc":
                op["svc"] = r.choice(["unknown.example.org", op["svc"] + ".", op["svc"][:-1], op["svc"].swapcase()])
            elif f == "xr_malformed":
                op["text"] = None
            elif f == "xr_notfinal":
                op["kind"] = "X"
                op["text"] = r.choice(["NO", "YES we have no bananas", "AGAIN", "MORE", "OKAY", "ok", "No thanks", "OK\tfine"])
            return op
        if a[0] == "reload":
            f = a[1]
            self.fire(f)
            op = {"op": "reload", "how": f[4:]}
            if f == "cfg_torn":
                op["frac"] = r.random()
            if f == "cfg_garbage":
                op["bytes"] = "".join(chr(r.randrange(1, 256)) for _ in range(r.randint(1, 80)))
            if f == "cfg_burst":
                op["count"] = r.choice([2, 3, 5])
            if f == "cfg_timeout":
                op["timeout"] = r.choice([0, 5, 30, 300, 3600])
            if f == "cfg_tables":
                self.mutate_tables()
                op["services"] = dict(self.svc_now)
                op["rules"] = json.loads(json.dumps(self.rules_now))
                op["omit"] = [k for k in ("omit_xquery", "omit_class") if r.random() < 0.5]
            return op
        return None

    def mutate_tables(self):
        """The operator edits the service table and/or the rule table: entries added, removed, changed in
        place, a removed name brought back, a whole table emptied."""
        r = self.rnd
        w = getattr(self, "w_ref", None)
        waited = sorted(((sum(1 for i in w.live.values() if i.awaiting.get(n)), n) for n in sorted(self.svc_now)), reverse=True) if w else []
        if waited and waited[0][0] > 0 and r.random() < 0.5:
            # the service most clients are waiting for right now is taken out of the table
            del self.svc_now[waited[0][1]]
            self.fire("cfg_removed_awaited_service" if waited[0][0] == 1 else "cfg_removed_service_awaited_by_several")
            # what tends to follow: the retired service refuses somebody, and the next edit adds a service
            # (which may take the retired one's place in the table)
            self.retired_refuses = waited[0][1]
            self.add_next = True
            if r.random() < 0.7:
                return
        elif w and waited and waited[0][0] > 0 and r.random() < 0.3 and \
                [n for c, n in waited if c == 0 and not any(n in i.awaiting for i in w.live.values())]:
            # a service nobody has been asked about goes while clients wait for another one: the table loses an
            # entry under the waiters (whatever it does with the slot, their outstanding answers stay theirs)
            idle = [n for c, n in waited if c == 0 and not any(n in i.awaiting for i in w.live.values())]
            del self.svc_now[r.choice(idle)]
            self.fire("cfg_removed_idle_service_under_waiters")
            self.stray_next = 3
            return
        elif getattr(self, "add_next", False) and len(self.svc_now) < 4 and r.random() < 0.8:
            self.add_next = False
            pool = [n for n in SVC_POOL if n not in self.svc_now and n not in self.svc_ever] or [n for n in SVC_POOL if n not in self.svc_now]
            nm = r.choice(pool)
            self.svc_now[nm] = r.choice(SVC_TYPES)
            self.svc_ever.add(nm)
            self.fire("cfg_added_service_after_retiring_an_awaited_one")
            if r.random() < 0.7:
                return
        for _ in range(r.choice([1, 1, 2, 3])):
            if self.cfg["modules"] == "class" and r.random() < 0.4:
                k = r.random()
                names = sorted(self.rules_now)
                if names and k < 0.3:
                    del self.rules_now[r.choice(names)]
                elif names and k < 0.38:
                    # an edit that changes nothing but the letter case of one value
                    nm = r.choice(names)
                    rl = self.rules_now[nm]
                    ks = [kk for kk in sorted(rl) if isinstance(rl[kk], str) and rl[kk].swapcase() != rl[kk] and kk != "xreply_ok"]
                    if ks:
                        kk = r.choice(ks)
                        rl[kk] = r.choice([rl[kk].swapcase(), rl[kk].upper(), rl[kk].lower(), rl[kk].capitalize()])
                        self.fire("cfg_case_only_rule_edit")
                elif names and k < 0.6:
                    nm = r.choice(names)
                    fresh = gen_rules(r, sorted(self.svc_now))
                    donor = fresh[sorted(fresh)[0]] if fresh else {}
                    rl = self.rules_now[nm]
                    if donor and r.random() < 0.5:
                        key = r.choice(sorted(donor))
                        rl[key] = donor[key]
                    elif rl:
                        # a criterion goes (one that is not a string among them: the address, the trust flag)
                        pref = [kk for kk in ("address", "trust_username") if kk in rl]
                        del rl[r.choice(pref) if pref and r.random() < 0.5 else r.choice(sorted(rl))]
                        self.fire("cfg_rule_criterion_removed")
                elif k < 0.9:
                    fresh = gen_rules(r, sorted(self.svc_now))
                    for nm in sorted(fresh)[:2]:
                        self.rules_now[nm] = fresh[nm]
                else:
                    self.rules_now = {}
                continue
            k = r.random()
            names = sorted(self.svc_now)
            if names and k < 0.35:
                # preferably a service that live clients are waiting for (the more the better)
                w = getattr(self, "w_ref", None)
                waited = sorted(((sum(1 for i in w.live.values() if i.awaiting.get(n)), n) for n in names), reverse=True) if w else []
                if waited and waited[0][0] > 0 and r.random() < 0.7:
                    del self.svc_now[waited[0][1]]
                    self.fire("cfg_removed_awaited_service" if waited[0][0] == 1 else "cfg_removed_service_awaited_by_several")
                else:
                    del self.svc_now[r.choice(names)]
            elif names and k < 0.55:
                self.svc_now[r.choice(names)] = r.choice(list(SVC_TYPES) + ["proxycheck"])
            elif k < 0.92 and len(names) < 4:
                gone = sorted(self.svc_ever - set(names))
                pool = [n for n in SVC_POOL if n not in self.svc_now]
                nm = r.choice(gone) if gone and r.random() < 0.5 else r.choice(pool)
                self.svc_now[nm] = r.choice(SVC_TYPES)
                self.svc_ever.add(nm)
            elif k >= 0.92:
                self.svc_now = {}

    def noise_line(self, w):
        r = self.rnd
        live = sorted(w.live)
        dead = [c for c in self.ids + [777, 99999] if c not in w.live] or [424242]      # (777 may be somebody's id: ids congruent modulo 256)
        lc = r.choice(live) if live else 4242
        dc = r.choice(dead)
        return r.choice([
            "-1 M irc.example.org 1024", "-1 M server.missing.maxclients", "-1 M",
            "%d E errtype :no, you are in error" % lc, "-1 E missing-message", "%d E" % lc,
            "%d Z what is this" % lc, "%d q" % lc, "%d 9 nine" % lc,
            "-1 D garbage", "-1 N more garbage", "-1 d still", "-1 P password garbage", "-1 U userinfo garbage",
            "-1 u username", "-1 n nick", "-1 H hurry", "-1 T done",
            "%d N host.for.dead.client" % dc, "%d D" % dc, "%d T" % dc, "%d H" % dc, "%d P :+x a b" % dc,
            "%d U name :real" % dc, "%d u ident" % dc, "%d n nick" % dc, "%d d" % dc,
            "%d U missing_user_info" % lc,
            "%d C 1.2.3.4 5" % dc, "%d C onlytwo" % dc, "%d C" % dc, "%d C 1.2.3.4 99 0::1" % lc,
            "-1 ? bogus", "-1 ?", "-1 ? Stats",
            "-1 X", "-1 X a", "-1 X a b", "-1 x a", "-1 x a b", "-1 X unlinked.without.routing",
            "%d " % dc + " ".join("w%d" % k for k in range(25)),
            "%d Z " % lc + " ".join("w%d" % k for k in range(25)),
            "%d Q %s" % (dc, word(r, r.choice([100, 5000, 20000]))),
            # lines with only an id / only blanks, commands lacking their parameter
            "%d" % lc, "%d" % dc, "   ", "\t", "-1", "%d " % lc, "%d N" % lc, "%d n" % lc, "%d P" % lc,
            "%d N" % dc, "%d P" % dc, "-1 N", "-1 P", "-1 n",
        ])


# ---------------------------------------------------------------- executor

class Result:
    def __init__(self):
        self.viol = []
        self.hash = None
        self.stats = {}
        self.fired = {}
        self.steps = 0
        self.sim_ns = 0
        self.states = set()
        self.transitions = set()
        self.verdicts = {}
        self.transcript = []
        self.ops = []
        self.nontrivial = False
        self.exit = None
        self.ubsan = []
        self.infra = None
        self.outputs = []       # per executed op: list of output lines (for differential oracles)
        self.snaps = []
        self.rawlines = []      # (resolved input line, live ids after it)
        self.stray_at = None
        self.stray_silent = None


def forge(tag, how, w, cid):
    if tag is None:
        tag = "7_1"
    a, _, b = tag.partition("_")
    if how == "nounderscore":
        return a + b
    if how == "trail":
        return tag + "_"
    if how == "nonhex":
        return a + "_" + b + "z"
    if how == "empty":
        return "_"
    if how == "under2":
        return a + "__" + b
    if how == "noserial":
        return a + "_"
    try:
        if how == "serial+1":
            return "%s_%x" % (a, int(b, 16) + 1)
        if how == "serial-1":
            return "%s_%x" % (a, max(0, int(b, 16) - 1))
    except ValueError:
        return tag + "q"
    if how == "serial-trunc":
        return a + "_" + b[:-1] if len(b) > 1 else a + "_" + b + "0"
    if how == "serial-extend":
        return tag + "0"
    if how == "id-extend":
        return a + "1_" + b      # (never a + "0": "00_4" is read as id 0 by a lenient number parser - rule 3)
    if how == "id-garbage":
        # something that is no hex digit between the id and the separator (not in front of the id: a sign, blanks
        # or "0x" there are read as part of the number by a lenient parser - rule 3, as for "id-extend")
        g = ["zz", "..", "+", "~", "x", "g", "-"][(len(a) + len(b) + (cid or 0)) % 7]     # (no blank: it would end the token)
        return a + g + "_" + b
    if how == "otherid":
        others = [c for c in sorted(w.live) if c != cid]
        o = others[0] if others else 12345
        return "%x_%s" % (o & 0xffffffff, b)
    return tag + "?"


class Exec:
    """Runs ops against one simhost with the World model attached."""

    def __init__(self, cfg, leaks=False, tag="p", keep_transcript=True, env=None, prop="C10", snap=False):
        self.prop = prop
        self.snap = snap
        self.cfg = json.loads(json.dumps(cfg))
        self.scratch = H.new_scratch(tag)
        self.conf = os.path.join(self.scratch, "iauthd.conf")
        self.conf_text = render_cfg(self.cfg, self.scratch)
        with open(self.conf, "w", encoding="latin1") as f:
            f.write(self.conf_text)
        self.w = World(self.cfg)
        self.res = Result()
        self.keep = keep_transcript
        self.leaks = leaks
        self.h = H.Host(self.conf, self.scratch, leaks=leaks, env=env)
        self.res.transcript.append(("conf", self.conf_text))
        if self.h.ready is None:
            self.res.infra = "daemon did not reach its event loop"
            return
        e = self.w.begin({"op": "start"})
        self.w.end(e, self.h.ready.lines())
        self.log("start", "", self.h.ready.lines())
        self.died = False

    def log(self, kind, inp, lines):
        if self.keep:
            self.res.transcript.append((kind, inp, lines))

    # -- resolve symbolic -> concrete --------------------------------------
    def resolve(self, op):
        w = self.w
        k = op["op"]
        if k == "xreply":
            cid = op["cid"]
            inst = op.get("inst", "cur")
            cur = w.live.get(cid)
            tag = None
            target = None
            if inst == "cur":
                tag = cur.tag if cur else None
                target = cur
            elif inst == "prev" or inst.startswith("prev:"):
                k = int(inst[5:]) if inst.startswith("prev:") else 0
                cands = [i for i in reversed(w.all) if i.cid == cid and i.ended is not None and i.tag]
                if cands:
                    target = cands[min(k, len(cands) - 1)]
                    tag = target.tag
            elif inst.startswith("forged:"):
                base = cur.tag if cur and cur.tag else next((i.tag for i in reversed(w.all) if i.tag), None)
                tag = forge(base, inst[7:], w, cid)
            elif inst.startswith("tag:"):
                tag = inst[4:]
            if tag is None:
                return None
            c = dict(op)
            c["tag"] = tag
            if target is not None:
                c["target"] = (target.cid, target.n)    # the instance this reply is meant for, whatever the tag text
            verb = "X" if op["kind"] == "X" else "x"
            if op.get("text") is None:
                c["line"] = "-1 %s %s %s" % (verb, op["svc"], tag)
            else:
                c["line"] = "-1 %s %s %s :%s" % (verb, op["svc"], tag, op["text"])
            return c
        if k == "announce":
            c = dict(op)
            c["line"] = "%d C %s %d %s %d" % (op["cid"], op["addr"], op["port"], op.get("laddr", "0::1"), op.get("lport", 6667))
            return c
        if k == "cli":
            c = dict(op)
            ev, arg, cid = op["ev"], op.get("arg"), op["cid"]
            if ev == "U":
                c["line"] = "%d U %s :%s" % (cid, arg[0], arg[1])
            elif ev == "P":
                c["line"] = "%d P :%s" % (cid, arg)
            elif ev == "u":
                c["line"] = "%d u" % cid if arg is None else ("%d u :" % cid if arg == "" else "%d u %s" % (cid, arg))
            elif arg is None:
                c["line"] = "%d %s" % (cid, ev)
            else:
                c["line"] = "%d %s %s" % (cid, ev, arg)
            return c
        if k == "stats":
            c = dict(op)
            c["line"] = "-1 ? %s" % op.get("form", "stats")
            return c
        if k == "config":
            c = dict(op)
            c["line"] = "-1 ? config"
            return c
        if k == "noise":
            return dict(op)
        return dict(op)

    # -- deliver -----------------------------------------------------------
    def feed_line(self, c):
        data = c["line"].encode("latin1")[c.get("lead_sent", 0):] + (b"\r\n" if c.get("crlf") else b"\n")
        if c.get("torn"):
            data += ("-1 ? " + c["torn"]["form"]).encode("latin1")[:c["torn"]["k"]]
            self._fed_torn = True
            self.w.probe("write_ends_inside_the_next_line")
        lines = []
        if c.get("pad"):
            # the line arrives in the middle of a backlog: kilobytes of other clients' traffic (short-lived
            # clients on an id nobody else uses) written in the same burst, before and after it
            one = b"7777 C 10.9.8.7 1000 0::1 6667\n7777 n padnick\n7777 D\n"
            if c.get("padkind") == "stats":
                # (what the daemon writes in one step must fit the socket buffer: a daemon whose end is blocking
                # would otherwise wait for a peer that, in lock-step, reads only after the step)
                cap = getattr(self, "sockbuf", None)
                if cap is None:
                    cap = next((int(n.split()[1]) for n in (self.h.ready.notes if self.h.ready else []) if n.startswith("SOCKBUF ")), 0)
                    self.sockbuf = cap
                # every line is a write of its own, and a small datagram costs the socket buffer a good kilobyte
                est = (16 + 2 * len(self.w.cfg.get("services") or {}) + 2 * len(self.w.cfg.get("rules") or {})) * 1280
                room = max(2, cap // 2 // est)
                if c["pad"][0] + c["pad"][1] > room:
                    c = dict(c, pad=[min(c["pad"][0], room // 2), min(c["pad"][1], room // 2)])
                # ... or the operator's requests for statistics, which make the daemon write a lot, while the
                # server is slow to read what the daemon writes
                one = b"-1 ? stats\n-1 ? config\n"
                self.h.peerstall()
                self.w.probe("peer_slow_to_read_during_a_burst")
            data = one * c["pad"][0] + data + one * c["pad"][1]
            self.w.probe("line_inside_a_backlog")
        if c.get("rdf"):
            self.h.rdfault(c["rdf"], 1)
            self.w.probe("rd_" + c["rdf"].lower())
        cuts = sorted(set(int(f * len(data)) for f in c.get("seg", [])) - {0, len(data)})
        if cuts:
            self.w.probe("seg")
            if any(cp == len(data) - 1 for cp in cuts) and c.get("crlf"):
                self.w.probe("seg_inside_crlf")
        prev = 0
        for cp in cuts + [len(data)]:
            rep = self.h.feed(data[prev:cp])
            lines += rep.lines()
            for n in rep.notes:
                if n.startswith("STALL "):
                    # the event loop was run a hundred thousand times with input readable on the server channel
                    # and no read fault outstanding, and the daemon did not read it: it has stopped listening
                    self.w.v(("C08", "C10", "C03"), "input-not-read", "input is readable on the server channel but the daemon "
                             "no longer reads it, however often its event loop runs (%s)" % n)
                    self.stalled = True
            prev = cp
        return lines

    def apply(self, op):
        """Execute one symbolic op.  Returns False when the run must stop."""
        if op.get("torn") and not op.get("_inner"):
            # the line, then what happens before the rest of the torn next line arrives, then that rest (one unit
            # for the shrinker: a half line left behind would corrupt whatever line came next)
            self._fed_torn = False
            if not self.apply(dict(op, _inner=True)):
                return False
            if not self._fed_torn:
                return True         # the line was not deliverable (e.g. a reply whose tag cannot be resolved): nothing torn
            for ns in op["torn"]["advs"]:
                if not self.apply({"op": "adv", "ns": ns}):
                    return False
            return self.apply({"op": "stats", "form": op["torn"]["form"], "lead_sent": op["torn"]["k"]})
        k = op["op"]
        if k == "drain":
            return self.drain(op)
        if k == "eof":
            return self.do_eof()
        if k == "audit":
            return self.do_audit()
        if k == "filler":
            return self.do_filler(op)
        c = self.resolve(op)
        if c is None:
            self.res.ops.append({"skipped": op})
            self.res.outputs.append(None)
            if self.snap:
                self.res.snaps.append(self.res.snaps[-1] if self.res.snaps else None)
            return True
        e = self.w.begin(c)
        try:
            if "line" in c:
                lines = self.feed_line(c)
            elif k == "adv":
                lines = self.h.adv(c["ns"]).lines()
            elif k == "wall":
                lines = self.h.wall(c["ns"]).lines()
            elif k == "reload":
                lines = self.do_reload(c)
            else:
                raise ValueError("unknown op %r" % (op,))
        except (H.HostDied, H.HostHang) as ex:
            self.log(k, c.get("line", json.dumps(c)), ["<daemon died: %s>" % type(ex).__name__])
            self.died = type(ex).__name__
            return False
        self.w.end(e, lines)
        self.log(k, c.get("line", {kk: vv for kk, vv in c.items() if kk != "op"}), lines)
        if op.get("stray"):
            self.res.stray_at = len(self.res.outputs)
            self.res.stray_silent = bool(e["silent"])
        self.res.outputs.append(lines)
        if "line" in c:
            self.res.rawlines.append((c["line"], sorted(self.w.live)))
        if self.snap:
            w = self.w
            self.res.snaps.append({
                "live": sorted(w.live),
                "prev": sorted(set(i.cid for i in w.all if i.ended is not None and i.tag)),
                "await": sorted((i.cid, s) for i in w.live.values() for s, a in i.awaiting.items() if a),
                "answered": sorted((i.cid, s) for i in w.live.values() for s, a in i.awaiting.items() if not a),
                "tagged": sorted(i.cid for i in w.live.values() if i.tag),
                "services": sorted(w.cfg["services"]),
                "waiting": sorted(i.cid for i in w.live.values() if any(i.awaiting.values()))})
        self.res.steps += 1
        if getattr(self, "stalled", False):
            return False
        if getattr(self, "stop_quietly", False) and not self.h.dead:
            # an accidentally valid damaged file is now in force; the protocol
            # model cannot follow arbitrary files: end the run here (cleanly, unless
            # a violation has been recorded already)
            if not self.w.viol:
                self.do_eof()
            return False
        if getattr(self, "nonstop", False):
            del self.w.viol[20:]
            return not self.h.dead
        # the run goes on after a violation of a property other than the one being checked (each check then
        # judges the whole history by its own oracle); it ends at the first violation of its own property
        if any(self.prop in v.props for v in self.w.viol) or len(self.w.viol) >= 6:
            return False
        return not self.h.dead

    def do_filler(self, op):
        """op["n"] short-lived clients on an id nobody else uses come and go (the model only counts them)."""
        n = op["n"]
        out = []
        try:
            for base in range(0, n, 500):
                m = min(500, n - base)
                out += self.h.feed(b"7777 C 10.9.8.7 1000 0::1 6667\n7777 D\n" * m).lines()
        except (H.HostDied, H.HostHang) as ex:
            self.log("filler", {"n": n}, ["<daemon died: %s>" % type(ex).__name__])
            self.died = type(ex).__name__
            return False
        self.w.announces += n
        self.w.probe("filler_clients", n)
        self.log("filler", {"n": n}, out)
        self.res.outputs.append(out)
        if self.snap:
            self.res.snaps.append(self.res.snaps[-1] if self.res.snaps else None)
        self.res.steps += 1
        if any(not l.startswith(">") for l in out):
            self.w.v(("C01", "C07"), "unprovoked", "clients that only came and went produced output: %r" % out[:3])
        return not self.h.dead

    def do_reload(self, c):
        how = c["how"]
        path = self.conf
        text = self.conf_text
        lines = []
        if how == "timeout":
            cfg2 = json.loads(json.dumps(self.cfg))
            cfg2["timeout"] = c["timeout"]
            cfg2.pop("timeout_text", None)
            text = render_cfg(cfg2, self.scratch)
        elif how == "tables":
            cfg2 = json.loads(json.dumps(self.cfg))
            cfg2["services"] = dict(c["services"])
            cfg2["rules"] = json.loads(json.dumps(c.get("rules", {})))
            for k in ("omit_xquery", "omit_class"):
                cfg2[k] = k in c.get("omit", [])
            text = render_cfg(cfg2, self.scratch)
        elif how == "torn":
            text = text[:int(c["frac"] * len(text))]
        elif how == "garbage":
            text = c["bytes"]
        if how == "missing":
            try:
                os.unlink(path)
            except OSError:
                pass
        else:
            with open(path, "w", encoding="latin1") as f:
                f.write(text)
        if how == "eio":
            self.h.freadfault()
        rep = self.h.sig("USR1", c.get("count", 1))
        lines += rep.lines()
        rcs = [int(n.split()[1]) for n in rep.notes if n.startswith("CONFREAD")]
        self.w.probe("reload_" + how)
        if rcs and rcs[-1] == 0:
            if how == "timeout":
                self.cfg["timeout"] = c["timeout"]
                self.cfg.pop("timeout_text", None)
                self.w.cfg["timeout"] = c["timeout"]
                self.conf_text = text
            elif how == "tables":
                self.w.reconfig(cfg2["services"], cfg2["rules"])      # (World.cfg is this executor's cfg dict)
                self.cfg["services"] = cfg2["services"]
                self.cfg["rules"] = cfg2["rules"]
                self.conf_text = text
            elif how in ("torn", "garbage"):
                # by accident a valid file: what it says is now in force; the
                # proto model cannot follow arbitrary files, so stop the run
                self.res.infra = None
                self.stop_quietly = True
        else:
            self.w.probe("reload_failed")
        # restore the good file for later reloads
        if how in ("torn", "garbage", "missing", "eio"):
            with open(path, "w", encoding="latin1") as f:
                f.write(self.conf_text)
        return lines

    # -- liveness: once faults stop ... --------------------------------------
    def drain(self, op):
        """Stop injecting faults; give every live client what it still lacks,
        answer every outstanding query with OK, pass every deadline; then
        only clients legitimately blocked (+! without a stamp) may remain."""
        w = self.w
        for _round in range(6):
            progressed = False
            for cid in sorted(w.live):
                i = w.live.get(cid)
                if i is None:
                    continue
                todo = []
                if not i.host_known:
                    todo.append({"op": "cli", "cid": cid, "ev": "d", "arg": None})
                if not i.ident_known:
                    todo.append({"op": "cli", "cid": cid, "ev": "u", "arg": "drain"})
                if i.nick is None:
                    todo.append({"op": "cli", "cid": cid, "ev": "n", "arg": "DrainNick"})
                if not i.user_known:
                    todo.append({"op": "cli", "cid": cid, "ev": "U", "arg": ["drain", "Drain User"]})
                for t in todo:
                    if w.live.get(cid) is not i:
                        break
                    progressed = True
                    if not self.apply(t):
                        return False
                for s in sorted(i.awaiting):
                    if w.live.get(cid) is not i:
                        break
                    if i.awaiting.get(s):
                        progressed = True
                        if not self.apply({"op": "xreply", "cid": cid, "inst": "cur", "svc": s, "kind": "X", "text": "OK"}):
                            return False
            if not progressed:
                break
        dl = [i.deadline for i in w.live.values() if i.deadline is not None]
        if dl and max(dl) >= w.now:
            if not self.apply({"op": "adv", "ns": max(dl) - w.now + NS}):
                return False
        if not self.apply({"op": "stats"}):
            return False
        for cid in sorted(w.live):
            i = w.live[cid]
            if not w.progress_determined(i):
                w.probe("opaque_after_drain")
                continue
            if not w.blocked_by_bang(i):
                w.v("C03", "stuck-after-drain", "client %d still undecided after faults stopped, every query was answered "
                    "and every deadline passed" % cid)
                return False
            w.probe("legit_blocked_by_bang")
        for cid in sorted(w.live):
            if not self.apply({"op": "cli", "cid": cid, "ev": "D", "arg": None}):
                return False
        if not self.apply({"op": "stats"}):
            return False
        # every timer that was ever armed: a stale one would fire on freed memory
        horizon = max([i.deadline for i in w.all if i.deadline is not None] + [w.now])
        if not self.apply({"op": "adv", "ns": horizon - w.now + 3600 * NS}):
            return False
        self.res.drained = True
        return True

    def do_audit(self):
        """In-vivo structural audit of the daemon's live sets (tripwire)."""
        w = self.w
        live = sorted(w.live)
        try:
            rep = self.h.audit(live)
        except (H.HostDied, H.HostHang) as ex:
            self.died = type(ex).__name__
            return False
        w.counts["audits"] += 1
        self.log("audit", "", rep.notes)
        for n in rep.notes:
            if n.startswith("AUDIT FAIL"):
                w.v(("C10",), "audit", "structural audit of the configuration tree failed: %s" % rep.notes)
                return False
            if n.startswith("AUDIT MISSING"):
                w.v(("C10",), "audit-lookup", "live client %s is not found in the daemon's request table (iauth_find_request)" % n.split()[2])
                return False
        return True

    def do_eof(self):
        try:
            rep = self.h.eof()
            e = self.w.begin({"op": "eof"})
            self.w.end(e, rep.lines())
            self.log("eof", "", rep.lines())
        except (H.HostDied, H.HostHang) as ex:
            self.died = type(ex).__name__
        return False

    # -- finish ------------------------------------------------------------
    def finish(self, expect_clean=True):
        w, res = self.w, self.res
        hang = getattr(self, "died", None) == "HostHang"
        ex = self.h.finish(kill=hang)
        res.exit = ex
        res.hash = self.h.digest()
        res.stats = dict(w.stats)
        res.sim_ns = w.now
        res.states = w.states
        res.transitions = w.transitions
        res.verdicts = dict(w.verdicts)
        res.tagmap = {i.tag: i.cid for i in w.all if i.tag}
        res.ubsan = ex.ubsan
        res.viol = list(w.viol)
        res.in_use_checks = w.in_use_checks
        res.extra = dict(w.counts)
        res.extra["in_use_checks"] = w.in_use_checks
        res.extra["clean_exit_after_eof"] = int(bool(any(t[0] == "eof" for t in res.transcript) and ex.rc == 0 and ex.teardown))
        res.extra["leak_checked_runs"] = int(bool(self.leaks))
        eof_sent = any(t[0] == "eof" for t in res.transcript)
        crash_props = ("C08", "C10")
        if hang:
            res.viol.insert(0, Violation(crash_props, "hang", "daemon did not answer within the step budget"))
        elif ex.asan:
            res.viol.insert(0, Violation(crash_props, "memory-error", "AddressSanitizer: %s in %s" % (ex.asan, ex.asan_frames[:4])))
        elif ex.signal:
            res.viol.insert(0, Violation(crash_props, "signal", "daemon killed by %s" % ex.signal))
        elif getattr(self, "died", None) and ex.exit_status is None:
            res.viol.insert(0, Violation(crash_props, "died", "daemon exited unexpectedly (rc=%s): %s" % (ex.rc, ex.stderr[-300:])))
        elif eof_sent and (ex.rc != 0 or not ex.teardown):
            if ex.leak and ex.rc == 78:
                req_leaks, other = classify_leaks(ex.stderr)
                res.extra["leak_reports_other"] = other
                if req_leaks:
                    res.viol.append(Violation(("C10",), "leak", "LeakSanitizer: request-related memory not released: " + req_leaks[0]))
            else:
                res.viol.append(Violation(crash_props, "unclean-exit", "exit status %s, teardown marker %s after end of input: %s" %
                                          (ex.rc, ex.teardown, ex.stderr[-300:])))
        if w.banner and not hang and not ex.asan and not ex.signal and getattr(ex, "out", None):
            # what reaches the server channel while the daemon exits (buffers flushed at exit) is on the channel too
            for ln in ex.out.decode("latin1").split("\n"):
                if ln and parse_out(ln)[0] is None:
                    res.viol.append(Violation(("C09",), "grammar", "at exit the daemon wrote to the server channel what is not an IAuth "
                                              "message (left in a buffer since when?): %r" % ln[:200]))
                    break
        memsafety = [u for u in ex.ubsan if any(x in u for x in ("null pointer", "out of bounds", "misaligned", "object size"))]
        if memsafety and not res.viol:
            res.viol.append(Violation(crash_props, "ub-memory", "UBSan: %s" % memsafety[0]))
        for u in ex.ubsan:
            if "signed integer overflow" in u and "set.c" in ex.stderr and not res.viol:
                res.viol.append(Violation(("C10",), "ub-compare", "UBSan: %s" % u))
                break
        shutil.rmtree(self.scratch, ignore_errors=True)
        res.nontrivial = sum(w.verdicts.values()) > 0
        return res


def classify_leaks(stderr):
    """Split LeakSanitizer blocks into leaks of request-related memory (any
    frame in /repo/modules/, or a libevent timer) and others (e.g. config
    parser error paths, which C14 counts but does not forbid)."""
    import re
    req, other = [], 0
    for blk in re.split(r"\n(?=(?:Direct|Indirect) leak of )", stderr):
        if not re.match(r"(Direct|Indirect) leak of", blk):
            continue
        fr = re.findall(r"#\d+ 0x[0-9a-f]+ in (\w+) ?(\S*)", blk)
        if any("/modules/" in f[1] or f[0] in ("event_new", "evtimer_new", "parse_new_client") for f in fr):
            names = [f[0] for f in fr if not f[0].startswith("__interceptor")]
            req.append("%s; frames %s" % (blk.split("\n")[0], names[:5]))
        else:
            other += 1
    return req, other


def leak_summary(stderr):
    import re
    fr = re.findall(r"#\d+ 0x[0-9a-f]+ in (\w+)", stderr)
    fr = [f for f in fr if not f.startswith("__interceptor") and f not in ("calloc", "malloc", "realloc", "strdup")]
    m = re.search(r"SUMMARY: AddressSanitizer: (\d+ byte\(s\) leaked in \d+ allocation)", stderr)
    return "%s; first frames %s" % (m.group(1) if m else "?", fr[:4])


RECOVER_ENV = {"ASAN_OPTIONS": "exitcode=77:abort_on_error=0:handle_abort=1:detect_leaks=0:malloc_context_size=12:"
                               "detect_stack_use_after_return=0:halt_on_error=0"}


def second_look(plan, res, tag):
    """A run that died on an AddressSanitizer report is executed once more with the sanitizer in
    report-and-continue mode (simhost is compiled with -fsanitize-recover=address; halting is the default),
    so that the protocol monitors see what a production build would have written after the bad access
    (typically: a message for a client whose record was just freed).  Monitor violations of that second run
    are added to the result; the crash itself stays attributed to C08/C10 only."""
    if not (res.exit is not None and res.exit.asan) or res.infra:
        return
    ex = Exec(plan["cfg"], leaks=False, tag=tag + "s", prop=plan.get("prop", "C10"),
              env=dict(RECOVER_ENV, VERIF_SOCKPAIR="1") if plan.get("one_socket") else RECOVER_ENV)
    if not ex.res.infra:
        for op in plan["ops"]:
            if not ex.apply(op):
                break
    ex.finish()
    have = {(tuple(v.props), v.rule) for v in res.viol}
    for v in ex.w.viol:
        if (tuple(v.props), v.rule) not in have:
            have.add((tuple(v.props), v.rule))
            v.detail = "[seen after the sanitizer report, in report-and-continue mode] " + v.detail
            res.viol.append(v)
    res.extra["second_looks"] = 1


def run_generated(rnd, opts=None, leaks=False, tag="p"):
    """Generate online and execute.  Returns (plan, result)."""
    opts = opts or {}
    cfg = opts.get("cfg") or gen_cfg(rnd, opts)
    # 4% of the runs: the server channel is one socket (the daemon's stdin and stdout are the same description, as
    # under the ircd) whose peer is slow to read while some bursts are answered
    one_socket = (not opts.get("snap")) and rnd.random() < opts.get("p_one_socket", 0.04)
    ex = Exec(cfg, leaks=leaks, tag=tag, prop=opts.get("prop", "C10"), snap=opts.get("snap", False),
              env={"VERIF_SOCKPAIR": "1"} if one_socket else None)
    ops = []
    if ex.res.infra:
        res = ex.finish()
        return {"profile": "proto", "cfg": cfg, "ops": ops}, res
    g = Gen(rnd, cfg, opts)
    g.one_socket = one_socket
    while True:
        op = g.next(ex.w)
        if op is None:
            break
        ops.append(op)
        if not ex.apply(op):
            break
    if not ex.w.viol and not ex.h.dead and not getattr(ex, "died", None):
        tail = [{"op": "drain"}, {"op": "eof"}] if opts.get("drain", True) else [{"op": "eof"}]
        for op in tail:
            ops.append(op)
            if not ex.apply(op):
                break
    res = ex.finish()
    res.fired = dict(g.fired)
    res.gen = {"faults": sorted(g.faults), "lenmode": g.lenmode, "clients": g.total, "conc": g.maxconc,
               "steps": g.max_steps, "p_reply": g.p_reply}
    plan = {"profile": "proto", "cfg": cfg, "ops": ops, "leaks": leaks, "prop": opts.get("prop", "C10")}
    if one_socket:
        plan["one_socket"] = True
        res.extra["runs_on_one_socket_with_a_slow_peer"] = 1
    second_look(plan, res, tag)
    return plan, res


def run_plan(plan, tag="r", leaks=None):
    ex = Exec(plan["cfg"], leaks=plan.get("leaks", False) if leaks is None else leaks, tag=tag,
              prop=plan.get("prop", "C10"), env={"VERIF_SOCKPAIR": "1"} if plan.get("one_socket") else None)
    if not ex.res.infra:
        for op in plan["ops"]:
            if not ex.apply(op):
                break
    res = ex.finish()
    second_look(plan, res, tag)
    return res
