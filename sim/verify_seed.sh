#!/bin/sh
# verify_seed.sh <worktree> <demo command...>: confirm a delivered seeded change (DELIVER/patch.diff):
#   compiles, `make check` passes with it, demo fails with it and passes without it.
# (uses git apply / apply -R, never git stash: the stash is shared between worktrees)
wt=$1; shift
cd "$wt" || exit 2
git checkout -q -- src modules
git apply DELIVER/patch.diff || { echo "patch does not apply"; exit 2; }
echo "== patch"; git diff --stat -- src modules | tail -3
make >/dev/null 2>&1 || { echo "BUILD FAILED with change"; exit 1; }
echo "== make check (with change): $(make check 2>&1 | grep -E '^# (PASS|FAIL)' | tr '\n' ' ')"
timeout 300 "$@" > /tmp/demo_with.log 2>&1; rc1=$?
echo "== demo with change: rc=$rc1  $(tail -2 /tmp/demo_with.log | tr '\n' ' ' | cut -c1-200)"
git apply -R DELIVER/patch.diff
make >/dev/null 2>&1
timeout 300 "$@" > /tmp/demo_without.log 2>&1; rc2=$?
echo "== demo without change: rc=$rc2  $(tail -2 /tmp/demo_without.log | tr '\n' ' ' | cut -c1-200)"
git apply DELIVER/patch.diff
make >/dev/null 2>&1
if [ $rc1 -ne 0 ] && [ $rc2 -eq 0 ]; then echo "CONFIRMED"; else echo "NOT CONFIRMED"; fi
