#!/usr/bin/env python3
"""findviol.py <PROP-of-batch> <prop/rule> [--seed N] [--n N] [--tier quick]: regenerate the runs of a batch one by
one and print the transcript of the first run that has the named violation (debugging aid, not a check)."""
import sys, os, random, argparse
sys.path.insert(0, os.path.dirname(os.path.abspath(__file__)))
import runner, profiles
import diffprof, bytesprof, confprof, reloadprof, logsprof, modprof
ap = argparse.ArgumentParser()
ap.add_argument("prop"); ap.add_argument("key"); ap.add_argument("--seed", type=int, default=1)
ap.add_argument("--n", type=int, default=3000); ap.add_argument("--tier", default="quick"); ap.add_argument("--tail", type=int, default=60)
ap.add_argument("--start", type=int, default=0)
a = ap.parse_args()
spec = profiles.PROPS[a.prop]
p = runner.profile(spec["profile"])
for idx in range(a.start, a.n):
    opts = dict(spec.get("opts", {})); opts["prop"] = a.prop
    rnd = random.Random("%s/%s/%s/%d" % (a.seed, spec["profile"], a.prop, idx))
    plan, res = p.gen_run(rnd, opts, a.tier, "fv")
    if any("%s/%s" % (v.props[0], v.rule) == a.key or ("/" not in a.key and v.rule == a.key) for v in res.viol):
        print("idx", idx)
        for l in p.transcript(res)[-a.tail:]:
            print(l[:260])
        for v in res.viol:
            print("VIOL", v)
        break
else:
    print("not found")
