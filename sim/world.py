"""Observation model + monitors for the protocol properties (C01-C06, C09-C11).

The model follows the INPUT (what the simulated server, services and clock
did) and the OBSERVED output only; it never reads daemon internals
(DESIGN section 4, soundness rule 1).  One call of World.step() = one
simulation step = exactly one of: one input line, one clock advance, one
signal.  Every output line is attributed to that step.
"""
import re
from model import (parse_out, addr_value, canon, wellshaped, fnm, prefix_match, mask_value,
                   NICKLEN, USERLEN, HOSTLEN, REALLEN, ACCOUNTLEN, CREDLEN, LOGIN_TYPES,
                   BOOL_TRUE, CLIENT_CMDS)

NS = 10 ** 9
BUILTIN_UNLINKED = "The login server is currently disconnected.  Please excuse the inconvenience."


class Violation:
    def __init__(self, props, rule, detail):
        self.props = tuple(props) if not isinstance(props, str) else (props,)
        self.rule = rule
        self.detail = detail

    def key(self):
        return (self.props[0], self.rule)

    def to_json(self):
        return {"props": list(self.props), "rule": self.rule, "detail": self.detail}

    def __repr__(self):
        return "%s/%s: %s" % ("+".join(self.props), self.rule, self.detail)


def relayed(got, want, linelen):
    """A text is relayed verbatim; a line that would exceed the daemon's 1024-byte message buffer goes out cut at
    1023 bytes (such texts cannot arrive over a real server link, whose lines are far shorter; C08 sends them)."""
    return got == want or (linelen >= 1023 and want.startswith(got))


class Inst:
    """One connection instance (id, n) as announced by the server."""

    def __init__(self, cid, n, addr_txt, addr_val, port, now, timeout):
        self.cid = cid
        self.n = n
        self.addr_txt = addr_txt
        self.addr_val = addr_val          # canonical (v4-compatible -> v4-mapped)
        self.addr_raw = addr_value(addr_txt)
        self.port = port
        self.t0 = now
        # libevent keeps time in microseconds (truncating), so the one-shot
        # timer armed at the announce is due at trunc_us(t0) + timeout
        self.deadline = (now // 1000) * 1000 + timeout * NS if timeout > 0 else None
        self.expired = False
        self.host = None
        self.host_known = False
        self.ident = None
        self.ident_known = False
        self.ident_blank = False
        self.nick = None
        self.claimed = None
        self.real = None
        self.user_known = False
        self.hurry = False
        self.creds = None
        self.modes = set()
        self.asked_x_at_vouch = False
        self.challenge = set()
        self.awaiting = {}      # svc -> True while the last thing between us and svc was a query
        self.qstep = {}         # svc -> step number of the last query
        self.sent_check = set()
        self.sent_login = set()
        self.okfrom = set()
        self.vouched = []       # stamps vouched by awaited login-type services, in order
        self.refused = False
        self.tag = None
        self.softdone = 0
        self.mx_seen = False
        self.ended = None       # None | 'D' | 'R' | 'k' | 'disc' | 'reg' | 'replaced'
        self.expiry_step = None
        self.spans_reload = False
        self.opaque = False     # live across a reload that changed the service table: see World.reconfig()
        self.opaque_pw = False  # a password arrived while opaque: its meaning (hence the mode state) is unknown
        self.stamp_uncertain = False    # a service changed from one known protocol to another while this instance was live
        self.illshaped = []     # texts of ill-shaped passwords (never to be forwarded)
        self.chal_texts = []

    # what the daemon knows, with the documented length limits
    def k_nick(self):
        return (self.nick or "")[:NICKLEN]

    def k_host(self):
        return (self.host or "")[:HOSTLEN]

    def k_ident(self):
        return (self.ident or "")[:USERLEN]

    def k_claimed(self):
        return (self.claimed or "")[:USERLEN]

    def k_real(self):
        return (self.real or "")[:REALLEN]

    def k_username(self):
        if self.k_ident():
            return self.k_ident()
        c = self.k_claimed()
        if c.startswith("~"):
            return c
        if c:
            return ("~" + c)[:USERLEN]
        return ""

    def abstract(self):
        return (self.host_known, self.ident_known, self.nick is not None, self.user_known, self.hurry,
                self.creds is not None, tuple(sorted(self.modes)), bool(self.vouched),
                tuple(sorted(s for s, a in self.awaiting.items() if a)), bool(self.challenge),
                self.expired, self.softdone > 0, self.ended)


class World:
    def __init__(self, cfg):
        self.cfg = cfg              # {"modules":..,"services":{name:type},"rules":{name:{..}},"timeout":int}
        self.live = {}
        self.all = []
        self.tags = {}
        self.now = 0                # simulated ns since the host started
        self.stepno = 0
        self.policy = None          # letters of the O line, None if no O line seen
        self.banner = False
        self.viol = []
        self.stats = {}             # probe counters
        self.ninst = 0
        self.states = set()
        self.transitions = set()
        self.verdicts = {"D": 0, "R": 0, "k": 0}
        self.in_use_checks = 0
        self.announces = 0      # announcements the daemon has seen, filler traffic included (its serial counter)
        # protocol of every service name as last configured with a known protocol (a retired or mis-typed entry
        # keeps answering with the protocol it had: modules/iauth_xquery.c keeps the record while it is referenced)
        self.svc_type = dict(self.services())
        self.counts = {"lines": 0, "queries": 0, "accepts": 0, "kills": 0, "challenges": 0,
                       "class_rule_hits": 0, "class_evals": 0, "client_lines": 0, "audits": 0}

    # ------------------------------------------------------------- helpers
    def probe(self, name, n=1):
        self.stats[name] = self.stats.get(name, 0) + n

    def v(self, props, rule, detail):
        self.viol.append(Violation(props, rule, detail))

    def has_xquery(self):
        return self.cfg["modules"] in ("xquery", "class")

    def services(self):
        """configured (known-protocol) services"""
        if not self.has_xquery():
            return {}
        ents = self.cfg["services"]
        return {n: t for n, t in ents.items() if t in
                ("login", "login-ipr", "dronecheck", "combined")}

    def beyond_capacity(self, svc):
        """The stock module tells 32 services apart and refuses the entries for which no table slot is left
        (taken in the section's order: case-insensitive by name); a module with wider masks may serve them all.
        Whether an entry past the 32nd is queried is therefore not demanded - if it is, the query is checked
        like any other."""
        ents = self.cfg["services"]
        return len(ents) > 32 and svc not in sorted(ents, key=lambda n: n.lower())[:32]

    def reconfig(self, services, rules):
        """A successful reload put new service and rule tables in force.  The statements determine the
        treatment of a client "arriving afterwards" (C17) and of clients under one fixed table; what a reload
        of the *service* table means for a client that is half-way through registration (is a new service
        queried for it, can a pending challenge still be answered, does an OK from a service that no longer
        exists count for a rule) is left open.  Such instances become opaque: the monitors that depend on the
        service table (C02 queries/+!, C03, C05, C06, C11) skip them; everything that does not (C01, C04
        silence of stray replies, C09, C10, memory safety) still applies to them, and every instance announced
        after the reload is checked in full against the new tables.  A reload that changes only the rule table
        leaves live instances fully checked: C11 speaks of the rules "at acceptance time"."""
        old = self.services()
        self.cfg["services"] = dict(services)
        self.cfg["rules"] = rules
        new = self.services()
        # a name that now has another *known* protocol than the one it was last known with: whether an account it
        # vouches still counts as a stamp for a client that is half-way through is open.  A removed or mis-typed
        # entry keeps the protocol it had (the module keeps the record while it is referenced).
        retyped = set(n for n in new if n in self.svc_type and self.svc_type[n] != new[n])
        self.svc_type.update(new)
        changed = set(n for n in set(old) | set(new) if old.get(n) != new.get(n))
        for i in self.live.values():
            i.spans_reload = True
            if changed:
                i.opaque = True
            if retyped:
                i.stamp_uncertain = True
        self.probe("reload_tables")
        if changed:
            self.probe("reload_tables_changed_services")
            if self.live:
                self.probe("reload_tables_with_live_clients")

    def progress_determined(self, i):
        """C03 for an instance that was live across a change of the service table: the obligation is computed
        from the queries the daemon was *seen* to send and the answers delivered to them, so it stays
        determined - a daemon that asks the new services later simply shows a new outstanding query - except
        for the +! part, which depends on what a password meant and on which answer counted as a stamp."""
        return not i.opaque or (not i.opaque_pw and "!" not in i.modes)

    def required(self):
        if self.policy is None:
            return {"host"}
        need = {"host"}
        if "A" in self.policy:
            need.add("user")
        if "U" in self.policy:
            need |= {"nick", "ident"}
        return need

    def data_ok(self, i):
        if i.hurry:
            return True
        have = set()
        if i.host_known:
            have.add("host")
        if i.ident_known:
            have.add("ident")
        if i.nick is not None:
            have.add("nick")
        if i.user_known:
            have.add("user")
        return self.required() <= have

    def prereq(self, i, typ):
        full = i.hurry or (i.host_known and i.ident_known and i.nick is not None and i.user_known)
        if typ == "login":
            return i.creds is not None
        if typ == "login-ipr":
            return i.creds is not None and (i.hurry or (i.host_known and i.ident_known))
        return full

    def stamp(self, i):
        return i.vouched[-1] if i.vouched else None

    def blocked_by_bang(self, i):
        return "!" in i.modes and not i.vouched

    # ----------------------------------------------------------- the step
    def begin(self, op):
        """Apply the input semantics of `op` (already resolved to concrete
        text by the executor).  Returns the expectation record for the step."""
        self.stepno += 1
        e = {"ctx": None, "kill": None, "chal": [], "unl": None, "silent": False,
             "req_q": [], "pw_trigger": None, "more": {}, "noise": False, "kind": op["op"],
             "stats": False, "config": False,
             # the line travels inside a backlog of requests for reports: their answers share the step
             "reports": op.get("padkind") == "stats" and bool(op.get("pad"))}
        k = op["op"]
        if k == "announce":
            cid = op["cid"]
            old = self.live.get(cid)
            if old is not None:
                old.ended = "replaced"
                self.probe("reannounce_live")
                if any(old.awaiting.values()):
                    self.probe("reannounce_while_awaiting")
            self.ninst += 1
            self.announces += 1
            i = Inst(cid, self.ninst, op["addr"], canon(addr_value(op["addr"])), op["port"], self.now,
                     self.cfg.get("timeout", 0))
            self.live[cid] = i
            self.all.append(i)
            e["ctx"] = i
        elif k == "cli":
            i = self.live.get(op["cid"])
            if i is None:
                e["silent"] = True
                self.probe("line_for_unknown_id")
            else:
                e["ctx"] = i
                self._cli(i, op, e)
        elif k == "xreply":
            self._xreply(op, e)
        elif k == "adv":
            t_before = self.now
            self.now += op["ns"]
            e["expired_now"] = set()
            # deadlines of finished requests that pass now: their timers must be gone (C10)
            for i in self.all:
                if i.ended is not None and i.deadline is not None and (t_before // 1000) * 1000 < i.deadline <= (self.now // 1000) * 1000 \
                        and not i.expired:
                    self.probe("deadline_of_finished_request_passes")
                    if i.cid in self.live:
                        self.probe("deadline_of_finished_request_passes_while_id_live_again")
            for i in self.live.values():
                if i.deadline is not None and not i.expired and (self.now // 1000) * 1000 >= i.deadline:
                    i.expired = True
                    e["expired_now"].add(i)
                    i.expiry_step = self.stepno
                    self.probe("timer_fire")
                    if i.softdone:
                        self.probe("softdone_then_timeout")
                    if any(i.awaiting.values()):
                        self.probe("timeout_with_query_outstanding")
        elif k == "wall":
            pass
        elif k == "stats":
            e["stats"] = True
        elif k == "config":
            e["config"] = True
        elif k in ("noise", "reload"):
            e["noise"] = True
        # C06(b): queries that must appear in this step
        i = e["ctx"]
        if i is not None and i.ended is None and self.has_xquery() and not i.opaque:
            for s, t in sorted(self.services().items()):
                if not self.prereq(i, t) or self.beyond_capacity(s):
                    continue
                if t in ("dronecheck", "combined") and s not in i.sent_check:
                    e["req_q"].append((s, "CHECK"))
                if t in ("login", "combined") and i.creds is not None and s not in i.sent_login:
                    e["req_q"].append((s, "LOGIN"))
                if t == "login-ipr" and s not in i.sent_login:
                    e["req_q"].append((s, "LOGIN2"))
        return e

    def _cli(self, i, op, e):
        ev, arg = op["ev"], op.get("arg")
        if ev == "N":
            if i.host is None:
                i.host = arg
            i.host_known = True
        elif ev == "d":
            i.host_known = True
        elif ev == "u":
            if arg is not None:
                i.ident = arg
                i.ident_known = True
            elif i.user_known:
                i.ident_known = True
            else:
                i.ident_blank = True
        elif ev == "n":
            i.nick = arg
        elif ev == "U":
            i.claimed, i.real = arg[0], arg[1]
            i.user_known = True
            if i.ident_blank:
                i.ident_known = True
        elif ev == "P" and (not self.has_xquery() or i.opaque):
            # no loaded module gives a password any meaning / meaning undetermined (see reconfig)
            if i.opaque:
                i.opaque_pw = True
        elif ev == "P":
            if i.challenge and i.creds is not None:
                # response to a service's MORE challenge
                for s in sorted(i.challenge):
                    if s in self.services():
                        e["more"][s] = "MORE " + arg
                i.challenge = set()
                i.chal_texts.append(arg)
                self.probe("challenge_response")
            else:
                ws = wellshaped(arg)
                if ws:
                    had_bang = "!" in i.modes
                    i.modes -= ws[1]
                    i.modes |= ws[0]
                    if i.creds is not None:
                        self.probe("pass_repeat")
                    i.creds = ws[2][:CREDLEN]
                    e["pw_trigger"] = i
                    if "!" in i.modes and not had_bang and i.vouched:
                        self.probe("bang_taken_with_stamp")
                    if had_bang and "!" not in i.modes:
                        self.probe("bang_dropped")
                else:
                    i.illshaped.append(arg)
                    self.probe("pass_illshaped")
        elif ev == "H":
            i.hurry = True
            self.probe("hurry")
            if i.softdone:
                self.probe("hurry_after_softdone")
        elif ev == "D":
            i.ended = "disc"
            del self.live[i.cid]
            if any(i.awaiting.values()):
                self.probe("disconnect_while_awaiting")
        elif ev == "T":
            i.ended = "reg"
            del self.live[i.cid]
            self.probe("registered_early")
        else:
            e["noise"] = True

    def _xreply(self, op, e):
        """op carries the resolved 'svc', 'tag', 'kind' (X|x), 'text'."""
        tag, svc, text = op.get("tag"), op["svc"], op.get("text")
        i = self.tags.get(tag) if tag is not None else None
        if op.get("target") is not None:
            # the environment addressed this reply to one particular instance (its tag as issued); should the
            # daemon have handed the same tag to a later instance, the reply is still not meant for that one
            i = next((x for x in self.all if (x.cid, x.n) == tuple(op["target"])), i)
        if i is None or i.ended is not None or self.live.get(i.cid) is not i:
            e["silent"] = True
            self.probe("xr_stale" if i is not None else "xr_forged_or_unknown_tag")
            return
        e["ctx"] = i
        if not i.awaiting.get(svc):
            e["silent"] = True
            self.probe("xr_not_awaited" if svc in self.cfg["services"] else "xr_unknown_svc")
            return
        typ = self.svc_type.get(svc)
        if op["kind"] == "x":
            if text is None:
                e["silent"] = True      # too few parameters
                self.probe("xr_malformed")
                return
            i.awaiting[svc] = False
            if typ != "dronecheck":
                e["unl"] = i
            self.probe("xr_unlinked")
            return
        if text is None:
            e["silent"] = True
            self.probe("xr_malformed")
            return
        if text == "OK" or text.startswith("OK "):
            i.awaiting[svc] = False
            i.okfrom.add(svc)
            acct = text[3:].split(" ")[0][:ACCOUNTLEN] if text.startswith("OK ") else ""
            if acct and typ in LOGIN_TYPES:
                if i.vouched:
                    self.probe("second_vouch")
                    if "!" in i.modes:
                        self.probe("second_ok_under_bang")
                i.vouched.append(acct)
                if i.modes & {"x", "!"}:
                    i.asked_x_at_vouch = True
            elif text.startswith("OK ") and not acct:
                self.probe("ok_empty_account")
            elif acct:
                self.probe("dronecheck_ok_account")
            self.probe("xr_ok")
        elif text.startswith("NO "):
            i.awaiting[svc] = False
            i.refused = True
            e["kill"] = (i, text[3:])
            self.probe("xr_no")
        elif text.startswith("AGAIN "):
            i.awaiting[svc] = False
            e["chal"].append((i, text[6:]))
            self.probe("xr_again")
        elif text.startswith("MORE "):
            i.awaiting[svc] = False
            i.challenge.add(svc)
            e["chal"].append((i, text[5:]))
            self.probe("xr_more")
        else:
            e["silent"] = True      # not a final answer: ignored (bare NO, unknown verb)
            self.probe("xr_not_final")
        if not e["silent"] and i.expired:
            self.probe("reply_after_timeout")

    # -------------------------------------------------------------- observe
    def end(self, e, lines):
        """Attribute and check the output lines of the step."""
        ctx = e["ctx"]
        decided_here = {}
        got_q = []
        k_seen = []
        c_seen = []
        in_use = None
        for ln in lines:
            kind, g = parse_out(ln)
            self.counts["lines"] += 1
            if not self.banner and kind != "V":
                # C09 speaks of the channel "from its version banner onwards": what start-up writes before
                # it (an error about the configuration, say) is not constrained
                self.probe("line_before_the_banner")
                continue
            if kind is None:
                if re.match(r"^[DRkK] -?\d+ ", ln):
                    # a verdict whose content cannot even be parsed is not faithful either
                    self.v(("C09", "C05"), "grammar", "verdict line is not a valid IAuth message: %r" % ln[:200])
                else:
                    self.v("C09", "grammar", "not a valid IAuth message: %r" % ln[:200])
                continue
            if kind == "V":
                self.banner = True
                continue
            if kind == "O":
                self.policy = set(ln[3:])
                continue
            if kind == "X":
                self._obs_query(e, ctx, g, ln, got_q)
                continue
            if kind in ("a", "s", "A", "G"):
                continue
            if kind == "S":
                m = re.search(r"(\d+) in use", g["text"]) if g["name"] == "iauth" else None
                if m:
                    in_use = int(m.group(1))
                continue
            if kind == ">":
                continue
            # client-directed line
            self.counts["client_lines"] += 1
            cid = int(g["id"])
            i = self.live.get(cid)
            if i is None:
                prev = decided_here.get(cid)
                if prev is not None:
                    self.v("C01", "after-verdict", "line for client %d after its verdict in the same step: %r" % (cid, ln))
                else:
                    self.v("C01", "not-live", "line names client %d which is not live: %r" % (cid, ln))
                continue
            if int(g["port"]) != i.port:
                self.v("C09", "port", "announced port %d, echoed %r" % (i.port, ln))
            av = canon(addr_value(g["addr"]))
            if av is None or av != i.addr_val or len(g["addr"]) >= 40:
                self.v("C09", "address", "announced %s, echoed %s in %r" % (i.addr_txt, g["addr"], ln))
            cmd = g["cmd"]
            if e["kind"] == "adv" and not i.expired:
                # only request timers make the daemon speak when nothing but the clock moves, and this client's
                # own deadline has not been reached: some other (finished?) request's timer acted on it
                self.v(("C10", "C02"), "foreign-timer", "a clock advance that did not reach client %d's deadline produced a line for it "
                       "(timer of a finished request?): %r" % (cid, ln))
            if ctx is not None and i is not ctx and not e["kind"] == "adv":
                self.v(("C01", "C07"), "wrong-client", "step about client %d produced a line for client %d: %r" % (ctx.cid, cid, ln))
            if ctx is None and e["kind"] not in ("adv",):
                self.v("C01", "unprovoked", "line for client %d in a step that concerns no client: %r" % (cid, ln))
            if cmd == "d":
                i.softdone += 1
                if i.softdone > 1:
                    self.v("C01", "two-soft-done", "second soft-done for client %d" % cid)
            elif cmd in "DR":
                self._obs_accept(e, i, cmd, g, ln)
                decided_here[cid] = i
            elif cmd in "kK":
                k_seen.append((i, g["text"], len(ln)))
                i.ended = "k"
                del self.live[cid]
                self.verdicts["k"] += 1
                self.counts["kills"] += 1
                decided_here[cid] = i
                if not (e["kill"] and e["kill"][0] is i):
                    self.v("C05", "unexpected-kill", "client %d rejected without a refusal from an awaited service: %r" % (cid, ln))
            elif cmd == "C":
                self.counts["challenges"] += 1
                c_seen.append((i, g["text"], len(ln)))
            elif cmd == "M":
                if "x" in g["modes"] and g["modes"].startswith("+"):
                    i.mx_seen = True
            elif cmd == "U":
                i.u_line = g["word"]
        # ---- per-step expectations
        if e["silent"] and any(parse_out(l)[0] != ">" and not (e.get("reports") and parse_out(l)[0] in ("S", "s", "A", "a")) for l in lines):
            self.v("C04", "stray-output", "a reply/line that must be ignored produced output: %r" % lines[:3])
        if e["kind"] == "noise" and any(parse_out(l)[0] != ">" for l in lines):
            self.v("C08", "junk-output", "a junk line produced output other than an operator notice: %r" % lines[:3])
        if e["kill"]:
            i, text = e["kill"]
            hits = [t for (j, t, n) in k_seen if j is i]
            if len(hits) != 1 or not any(relayed(t, text, n) for (j, t, n) in k_seen if j is i):
                self.v(("C05", "C02"), "refusal-not-relayed", "NO %r for client %d gave kill lines %r" % (text, i.cid, hits))
        exp_c = [(i, t) for (i, t) in e["chal"]]
        for (i, t) in exp_c:
            hits = [x for (j, x, n) in c_seen if j is i]
            if len(hits) != 1 or not any(relayed(x, t, n) for (j, x, n) in c_seen if j is i):
                self.v("C05", "challenge-not-relayed", "expected C %r for client %d, got %r" % (t, i.cid, hits))
        for (j, x, _n) in c_seen:
            if any(j is i for (i, _) in exp_c):
                continue
            if e["unl"] is j:
                continue
            self.v("C05", "unexpected-challenge", "C line %r for client %d without a MORE/AGAIN/unlinked for it" % (x, j.cid))
        self._check_queries(e, ctx, got_q)
        if e["stats"]:
            self.in_use_checks += 1
            if in_use is None:
                self.v("C10", "no-stats", "stats request produced no 'in use' report")
            elif in_use != len(self.live):
                self.v("C10", "in-use", "daemon reports %d requests in use, model has %d live (%s)" %
                       (in_use, len(self.live), sorted(self.live)))
        # C03: per-step progress obligation
        for cid in sorted(self.live):
            i = self.live[cid]
            out = [s for s, a in i.awaiting.items() if a]
            # "a final answer to every query sent about it OR an expired request timeout"
            q_ok = (not out) or i.expired
            if self.data_ok(i) and q_ok and not self.blocked_by_bang(i) and self.progress_determined(i):
                self.v("C03", "stuck", "client %d has all data (%s), no unanswered query (outstanding=%s expired=%s), "
                       "no unmet +! (modes=%s stamp=%s) but no verdict after step %d (%s)" %
                       (cid, "H" if i.hurry else "complete", out, i.expired, "".join(sorted(i.modes)),
                        self.stamp(i), self.stepno, e["kind"]))
        # coverage measure
        for i in list(self.live.values()) + list(decided_here.values()):
            a = i.abstract()
            self.states.add(a)
            self.transitions.add((a, e["kind"] + ":" + str(e.get("sub", ""))))

    def _obs_query(self, e, ctx, g, ln, got_q):
        tag, svc, text = g["tag"], g["server"], g["text"]
        owner = self.tags.get(tag)
        if owner is None:
            if ctx is None or ctx.ended is not None:
                self.v("C01", "query-no-context", "query with a new routing tag in a step that concerns no live client: %r" % ln)
                return
            if ctx.tag is not None and ctx.tag != tag:
                self.v(("C01", "C07"), "second-tag", "client %d got a second routing tag %s (had %s)" % (ctx.cid, tag, ctx.tag))
                return
            ctx.tag = tag
            self.tags[tag] = ctx
            owner = ctx
        if owner.ended is not None or self.live.get(owner.cid) is not owner:
            self.v("C01", "query-after-end", "query carries the tag of ended client instance %d/%d: %r" % (owner.cid, owner.n, ln))
            if ctx is None or ctx.ended is not None or ctx.tag is not None or ctx.cid != owner.cid:
                return
            # the tag of a departed instance was handed to its successor on the same id: already a violation
            # (above); the query is evidently about the successor, so the other monitors go on following it.
            # A tag that does not tell two instances of an id apart cannot keep their replies apart either (C04).
            self.v(("C04", "C01"), "tag-reused-for-successor", "client %d's new instance %d got the routing tag %s of its departed "
                   "instance %d: a reply still in flight for the old one now names the new one" % (ctx.cid, ctx.n, tag, owner.n))
            ctx.tag = tag
            self.tags[tag] = ctx
            owner = ctx
        if ctx is not None and owner is not ctx:
            self.v(("C01", "C07"), "wrong-client", "step about client %d produced a query tagged for client %d: %r" % (ctx.cid, owner.cid, ln))
        if ctx is None:
            self.v("C01", "unprovoked", "query in a step that concerns no client: %r" % ln)
        self.counts["queries"] += 1
        owner.awaiting[svc] = True
        owner.qstep[svc] = self.stepno
        got_q.append((owner, svc, text, ln))

    def _expected_texts(self, i, svc, typ):
        """All query texts the model would accept for (i, svc) right now."""
        hn = i.k_host() or "@ADDR"
        out = {}
        if typ in ("dronecheck", "combined"):
            out["CHECK"] = "CHECK %s %s @ADDR %s :%s" % (i.k_nick(), i.k_username(), hn, i.k_real())
        if i.creds is not None:
            if typ in ("login", "combined"):
                out["LOGIN"] = "LOGIN %s" % i.creds
            if typ == "login-ipr":
                out["LOGIN2"] = "LOGIN2 @ADDR %s %s %s" % (hn, i.k_username(), i.creds)
        return out

    def _norm_query(self, i, text):
        """Replace address fields by @ADDR when they denote the announced
        address (compared by value, not by spelling)."""
        parts = text.split(" ")
        def isaddr(t):
            return canon(addr_value(t)) == i.addr_val
        if parts[0] == "CHECK" and len(parts) > 4:
            if isaddr(parts[3]):
                parts[3] = "@ADDR"
            if not i.k_host() and isaddr(parts[4]):
                parts[4] = "@ADDR"
        elif parts[0] == "LOGIN2" and len(parts) > 3:
            if isaddr(parts[1]):
                parts[1] = "@ADDR"
            if not i.k_host() and isaddr(parts[2]):
                parts[2] = "@ADDR"
        return " ".join(parts)

    def _check_queries(self, e, ctx, got_q):
        if not got_q and not e["req_q"] and not e["more"]:
            return
        svcs = self.services()
        seen = {}
        for (i, svc, text, ln) in got_q:
            verb = text.split(" ", 1)[0]
            typ = svcs.get(svc)
            if i.opaque:
                continue        # undetermined for an instance that was live across a change of the service table
            if typ is None:
                self.v("C06", "unknown-service", "query to %r which is not a configured service: %r" % (svc, ln))
                continue
            if verb == "MORE":
                if e["more"].get(svc) == text and i is ctx:
                    seen[(svc, "MORE")] = seen.get((svc, "MORE"), 0) + 1
                    if seen[(svc, "MORE")] > 1:
                        self.v("C06", "dup-query", "challenge response forwarded twice: %r" % ln)
                else:
                    self.v("C06", "bad-more", "MORE query %r does not forward a password received while %s's challenge was pending" % (ln, svc))
                continue
            if verb not in ("CHECK", "LOGIN", "LOGIN2"):
                self.v("C06", "bad-verb", "unknown query form %r" % ln)
                continue
            for bad in i.illshaped + i.chal_texts:
                if verb != "CHECK" and bad and text.endswith(" " + bad) and (i.creds is None or not i.creds.endswith(bad)):
                    self.v("C06", "illshaped-forwarded", "password %r lacking the documented shape was forwarded: %r" % (bad, ln))
            if not self.prereq(i, typ):
                self.v("C06", "early", "query to %s (%s) before its prerequisites are known: %r" % (svc, typ, ln))
                continue
            exp = self._expected_texts(i, svc, typ)
            if verb not in exp:
                self.v("C06", "wrong-form", "%s query to a %s service (credentials %s): %r" %
                       (verb, typ, "known" if i.creds is not None else "unknown", ln))
                continue
            if self._norm_query(i, text) != exp[verb]:
                self.v("C06", "unfaithful", "query %r does not carry the client's data; expected %r (@ADDR = %s)" %
                       (text, exp[verb], i.addr_txt))
                continue
            first = (svc not in i.sent_check) if verb == "CHECK" else (svc not in i.sent_login)
            if not first and e["pw_trigger"] is not i:
                self.v("C06", "requery", "%s re-queried for client %d outside a new password: %r" % (svc, i.cid, ln))
            if not first and verb == "CHECK" and typ == "dronecheck":
                self.v("C06", "requery", "drone-check service %s re-queried for client %d: %r" % (svc, i.cid, ln))
            seen[(svc, verb)] = seen.get((svc, verb), 0) + 1
            if seen[(svc, verb)] > 1:
                self.v("C06", "dup-query", "same query twice in one step: %r" % ln)
            if verb == "CHECK":
                i.sent_check.add(svc)
            else:
                i.sent_login.add(svc)
        if ctx is not None and ctx.ended is None:
            for (svc, verb) in e["req_q"]:
                if (svc, verb) not in seen:
                    self.v("C06", "skipped", "client %d: prerequisites of %s (%s) are known but no %s query was sent in this step" %
                           (ctx.cid, svc, svcs.get(svc), verb))
            for svc, text in sorted(e["more"].items()):
                if (svc, "MORE") not in seen and not ctx.opaque:
                    self.v("C06", "more-skipped", "client %d answered %s's challenge but no MORE query was sent" % (ctx.cid, svc))

    def _obs_accept(self, e, i, cmd, g, ln):
        cid = i.cid
        # ---- C02
        if not self.data_ok(i):
            self.v("C02", "data-missing", "client %d accepted before all requested data arrived: %r" % (cid, ln))
        out = [s for s, a in i.awaiting.items() if a]
        if i.opaque:
            # live across a change of the service table: a service that is no longer configured may have been
            # written off with its entry (open, see reconfig); one that still is - whatever was edited - still owes
            out = [s for s in out if s in self.services()]
        if out and not i.expired:
            self.v("C02", "query-outstanding", "client %d accepted while %s still owe(s) an answer and no timeout expired: %r" % (cid, out, ln))
        if (self.blocked_by_bang(i) or ("!" in i.modes and cmd == "D" and self.has_xquery())) and not i.opaque:
            # (+! and reported without an account: whatever a service vouched, the client holds no stamp)
            self.v("C02", "bang-no-stamp", "client %d asked for +! and holds no account stamp but was accepted: %r" % (cid, ln))
        if i.refused:
            self.v(("C02", "C01"), "accepted-after-refusal", "client %d was refused by a service and then accepted: %r" % (cid, ln))
        # ---- C05
        acct = g.get("account") if cmd == "R" else None
        if i.opaque:
            self.probe("opaque_accept")
        if i.stamp_uncertain:
            self.probe("accept_with_uncertain_stamp")
        elif cmd == "R":
            # (also for an instance that was live across a change of the service table, as long as no service
            # changed from one known protocol to another: which replies vouch an account is then still determined)
            if not i.vouched:
                self.v(("C05", "C04"), "stamp-not-vouched", "client %d reported with account %r that no awaited login service vouched for it" % (cid, acct))
            elif acct not in i.vouched:
                self.v("C05", "stamp-wrong", "client %d reported with account %r; vouched: %r" % (cid, acct, i.vouched))
            if i.asked_x_at_vouch and not i.mx_seen and not i.opaque_pw:
                self.v("C05", "no-hidden-host", "client %d asked for host hiding and got an account but no +x was sent" % cid)
        else:
            if i.vouched:
                self.v("C05", "stamp-lost", "client %d was vouched account %r but accepted without one: %r" % (cid, i.vouched, ln))
        # ---- C11 / C05(c)
        self.counts["accepts"] += 1
        if self.cfg["modules"] == "class":
            cls, uexp = self._class_of(i, acct or "")
            if self.cfg.get("rules"):
                self.counts["class_evals"] += 1
            if cls:
                self.counts["class_rule_hits"] += 1
        else:
            cls, uexp = "", None
        if i.opaque:
            cls, uexp = g.get("class") or "", ""
        gotc = g.get("class") or ""
        # a class (or rule name) longer than the request's class field is reported cut; where exactly (62 or 63
        # characters) is not stated anywhere, so for such names any prefix of at least 62 characters is accepted
        cls_ok = (gotc == cls) if len(cls) <= 62 else (len(gotc) >= 62 and cls.startswith(gotc))
        if not cls_ok:
            self.v(("C11", "C05"), "class", "client %d got class %r, first matching rule gives %r: %r" % (cid, g.get("class") or "", cls, ln))
        ugot = getattr(i, "u_line", None)
        if uexp == "":
            pass        # no client-supplied name to upgrade to: undetermined (an empty U is a C09 matter)
        elif ugot != uexp:
            self.v("C11", "trust-username", "client %d: expected U line %r, got %r" % (cid, uexp, ugot))
        i.ended = cmd
        del self.live[cid]
        self.verdicts[cmd] += 1
        if i.expired:
            self.probe("accept_after_expiry")
        if i.hurry:
            self.probe("accept_on_hurry")

    def _class_of(self, i, acct):
        rules = self.cfg.get("rules", {})
        for nm in sorted(rules, key=lambda s: s.lower()):
            rl = rules[nm]
            if "account" in rl and not fnm(rl["account"], acct.split(":")[0]):
                continue
            if "address" in rl:
                v, bits = mask_value(rl["address"])
                if bits and not prefix_match(i.addr_raw, v, bits):
                    continue
            if "username" in rl and not fnm(rl["username"], i.k_ident()):
                continue
            if "hostname" in rl and not fnm(rl["hostname"], i.k_host()):
                continue
            if "xreply_ok" in rl and not any(s.lower() == rl["xreply_ok"].lower() for s in i.okfrom):
                continue
            u = None
            if rl.get("trust_username") in BOOL_TRUE and i.k_ident().startswith("~"):
                c = i.k_claimed()
                u = c[1:] if c.startswith("~") else c
            return rl.get("class", nm), u
        return "", None
