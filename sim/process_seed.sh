#!/bin/sh
# process_seed.sh <worktree> <property> <seedname> '<needs>': confirm a delivered change, keep it under seeded/, run the property's quick check on it
wt=$1; prop=$2; name=$3; needs=$4
demo="python3 DELIVER/demo.py"; [ -f $wt/DELIVER/demo.py ] || demo="sh DELIVER/demo.sh"
out=$(sh /verif/sim/verify_seed.sh $wt $demo 2>&1 | tail -7)
echo "$out"
echo "$out" | grep -q "^CONFIRMED" || { echo "NOT KEPT"; exit 1; }
python3 /verif/sim/keep_seed.py $wt $name $prop "$needs" || exit 1
python3 /verif/sim/selftest.py seeded/$name --jobs=1
