#!/usr/bin/env python3
"""Sensitivity self-test: apply each mutant (mutants/*.patch, seeded/*/patch.diff) to /repo, run the quick check of
the property it targets, undo.  Evidence and replay files of these runs go to a scratch directory."""
import os, sys, subprocess, glob, json, re, time, shutil

def sh(*a, **k):
    return subprocess.run(a, capture_output=True, text=True, **k)

def clean():
    st = sh("git", "-C", "/repo", "status", "--porcelain", "--untracked-files=no").stdout.strip()
    return st == ""

def main():
    pats = [a for a in sys.argv[1:] if not a.startswith("--")]
    runs = next((a.split("=")[1] for a in sys.argv if a.startswith("--runs=")), None)
    extra = next((a.split("=")[1].split(",") for a in sys.argv if a.startswith("--also=")), [])
    items = []
    for f in sorted(glob.glob("/verif/mutants/*.patch")):
        items.append((os.path.basename(f)[:-6], f, os.path.basename(f)[:3]))
    for d in sorted(glob.glob("/verif/seeded/*/")):
        meta = json.load(open(d + "meta.json"))
        items.append(("seeded/" + os.path.basename(d.rstrip("/")), d + "patch.diff", meta["property"]))
    if pats:
        items = [it for it in items if any(p in it[0] for p in pats)]
    if not clean():
        print("refusing: /repo has uncommitted changes to tracked files")
        sys.exit(2)
    scratch = "/dev/shm/verif.selftest"
    shutil.rmtree(scratch, ignore_errors=True)
    os.makedirs(scratch)
    env = dict(os.environ, VERIF_EVIDENCE_DIR=scratch + "/ev", VERIF_FINDINGS_DIR=scratch + "/fi", VERIF_SHRINK="80")
    if runs:
        env["VERIF_RUNS"] = runs
    results = []
    try:
        for name, patch, prop in items:
            a = sh("git", "-C", "/repo", "apply", patch)
            if a.returncode != 0:
                print("%-55s APPLY-FAILED %s" % (name, a.stderr.strip()[:100]))
                results.append((name, prop, "apply-failed", ""))
                continue
            row = []
            for pr in [prop] + [e for e in extra if e != prop]:
                t = time.time()
                cp = sh(sys.executable, "/verif/sim/simctl.py", "check", pr, "--tier", "quick", env=env)
                rules = sorted(set(re.findall(r"^  rule=(\S+)", cp.stdout, re.M)))
                status = {0: "MISSED", 1: "caught", 2: "infra"}.get(cp.returncode, "rc%d" % cp.returncode)
                if "build of simhost" in cp.stdout:
                    status = "build-failed"
                row.append("%s:%s%s (%.0fs)" % (pr, status, rules if rules else "", time.time() - t))
                results.append((name, pr, status, ",".join(rules)))
            sh("git", "-C", "/repo", "checkout", "--", ".")
            if name.startswith("seeded/"):
                mp = "/verif/" + name + "/meta.json"
                meta = json.load(open(mp))
                meta["checks_run"] = ["git -C /repo apply seeded/%s/patch.diff; python3 sim/simctl.py check %s --tier quick -> %s; git -C /repo checkout -- ." %
                                      (name[7:], r.split(":")[0], r.split(":", 1)[1]) for r in row]
                json.dump(meta, open(mp, "w"), indent=1)
            print("%-55s %s" % (name, "  ".join(row)))
            sys.stdout.flush()
    finally:
        sh("git", "-C", "/repo", "checkout", "--", ".")
        sh("make", "-C", "/verif", "build")
    json.dump(results, open(scratch + "/results.json", "w"), indent=1)
    missed = [r for r in results if r[2] != "caught"]
    print("%d runs, %d not caught" % (len(results), len(missed)))

if __name__ == "__main__":
    main()
