#!/usr/bin/env python3
"""Sensitivity self-test: apply each mutant (mutants/*.patch, seeded/*/patch.diff) to a scratch copy of /repo's
working tree (under /dev/shm, removed afterwards; /repo itself is never touched), run the check of the property it
targets against that copy (VERIF_REPO / VERIF_BUILD overrides), and report caught / MISSED.

  selftest.py [name-substring ...] [--tier=quick] [--runs=N] [--also=C08,C10] [--jobs=2] [--seed=N] [--no-meta]

Evidence and replay files of these runs go to the scratch directory, never to /verif/evidence."""
import os, sys, subprocess, glob, json, re, time, shutil
from concurrent.futures import ThreadPoolExecutor


def sh(*a, **k):
    return subprocess.run(a, capture_output=True, text=True, **k)


def opt(name, default=None):
    return next((a.split("=", 1)[1] for a in sys.argv if a.startswith("--%s=" % name)), default)


def one(item, scratch, tier, runs, extra, seed):
    name, patch, prop = item
    slot = scratch + "/" + re.sub(r"[^A-Za-z0-9_.-]", "_", name)
    repo = slot + "/repo"
    os.makedirs(slot)
    sh("rsync", "-a", "--exclude", ".git", "--exclude", "*.o", "--exclude", "*.lo", "--exclude", ".libs",
       "--exclude", "_build", "/repo/", repo + "/")
    a = sh("git", "apply", patch, cwd=repo)
    if a.returncode != 0:
        a = sh("patch", "-p1", "-s", "-i", patch, cwd=repo)
    if a.returncode != 0:
        shutil.rmtree(slot, ignore_errors=True)
        return name, [(prop, "apply-failed", "", 0.0)]
    env = dict(os.environ, VERIF_REPO=repo, VERIF_BUILD=slot + "/build", VERIF_EVIDENCE_DIR=slot + "/ev",
               VERIF_FINDINGS_DIR=slot + "/fi", VERIF_SHRINK="80")
    if runs:
        env["VERIF_RUNS"] = runs
    if seed:
        env["VERIF_SEED"] = seed
    row = []
    for pr in [prop] + [e for e in extra if e != prop]:
        t = time.time()
        cp = sh(sys.executable, "/verif/sim/simctl.py", "check", pr, "--tier", tier, env=env)
        rules = sorted(set(re.findall(r"^  rule=(\S+)", cp.stdout, re.M)))
        status = {0: "MISSED", 1: "caught", 2: "infra"}.get(cp.returncode, "rc%d" % cp.returncode)
        if "build of simhost" in cp.stdout:
            status = "build-failed"
        row.append((pr, status, ",".join(rules), time.time() - t))
    shutil.rmtree(slot, ignore_errors=True)
    return name, row


def main():
    pats = [a for a in sys.argv[1:] if not a.startswith("--")]
    runs, tier, seed = opt("runs"), opt("tier", "quick"), opt("seed")
    extra = (opt("also") or "").split(",") if opt("also") else []
    jobs = int(opt("jobs", "2"))
    items = []
    for f in sorted(glob.glob("/verif/mutants/*.patch")):
        items.append((os.path.basename(f)[:-6], f, os.path.basename(f)[:3]))
    for d in sorted(glob.glob("/verif/seeded/*/")):
        meta = json.load(open(d + "meta.json"))
        items.append(("seeded/" + os.path.basename(d.rstrip("/")), d + "patch.diff", meta["property"]))
    if pats:
        items = [it for it in items if any(p in it[0] for p in pats)]
    scratch = "/dev/shm/verif.selftest.%d" % os.getpid()
    shutil.rmtree(scratch, ignore_errors=True)
    os.makedirs(scratch)
    results = []
    try:
        with ThreadPoolExecutor(jobs) as ex:
            for name, row in ex.map(lambda it: one(it, scratch, tier, runs, extra, seed), items):
                for pr, status, rules, dt in row:
                    results.append((name, pr, status, rules))
                if name.startswith("seeded/") and "--no-meta" not in sys.argv and tier == "quick" and not runs and not seed:
                    mp = "/verif/" + name + "/meta.json"
                    meta = json.load(open(mp))
                    meta["checks_run"] = ["patch applied to a scratch copy of /repo; VERIF_REPO=<copy> python3 sim/simctl.py check %s --tier quick -> %s%s" %
                                          (pr, status, " [%s]" % rules if rules else "") for pr, status, rules, dt in row]
                    json.dump(meta, open(mp, "w"), indent=1)
                print("%-60s %s" % (name, "  ".join("%s:%s%s (%.0fs)" % (pr, st, "[%s]" % ru if ru else "", dt) for pr, st, ru, dt in row)))
                sys.stdout.flush()
    finally:
        shutil.rmtree(scratch, ignore_errors=True)
    missed = [r for r in results if r[2] != "caught"]
    print("%d runs, %d not caught" % (len(results), len(missed)))
    for r in missed:
        print("  NOT CAUGHT: %s %s %s" % (r[0], r[1], r[2]))
    sys.exit(1 if missed else 0)


if __name__ == "__main__":
    main()
