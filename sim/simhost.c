/* simhost.c - deterministic simulation host for iauthd-c.
 *
 * The daemon's own main() (compiled with -Dmain=iauthd_main) runs inside
 * this executable.  Everything the daemon could observe from the operating
 * system that is not a pure function of its input is owned here:
 *
 *  - clock_gettime/gettimeofday/time are defined in this executable and so
 *    interpose libc for libevent, the daemon and its modules;
 *  - event_base_dispatch is defined here: instead of libevent's blocking
 *    loop the daemon enters sim_driver(), which executes one controller
 *    command at a time and steps the REAL event_base_loop(EVLOOP_NONBLOCK);
 *  - fd 0 is a pipe whose write end the driver holds, fd 1 is a memfd that
 *    is read back after every step;
 *  - readv (what evbuffer_read uses) and fread (what conf_read uses) can be
 *    made to fail on command;
 *  - conf_read is wrapped so that its return value is observable.
 *
 * Control protocol (fd 3 in, fd 4 out), strictly request/response:
 *   request : one text line, optionally followed by a counted payload
 *   response: "<STATUS> <nout> <nnotes>\n" + nout bytes of what the daemon
 *             wrote to its stdout during the step + nnotes bytes of notes.
 */
#define _GNU_SOURCE
#include "src/common.h"
#include "modules/iauth.h"
#include <sys/mman.h>
#include <sys/stat.h>
#include <sys/ioctl.h>
#include <sys/uio.h>
#include <sys/socket.h>
#include <fcntl.h>
#include <signal.h>
#include <dlfcn.h>

extern int iauthd_main(int argc, char **argv);

/* ---------------------------------------------------------------- clock */

static long long mono_ns = 1000LL * 1000000000LL;
static long long wall_off = 1700000000LL * 1000000000LL;

int clock_gettime(clockid_t c, struct timespec *ts)
{
    long long t = mono_ns;
    if (c == CLOCK_REALTIME || c == CLOCK_REALTIME_COARSE
#ifdef CLOCK_TAI
        || c == CLOCK_TAI
#endif
        )
        t += wall_off;
    ts->tv_sec = t / 1000000000LL;
    ts->tv_nsec = t % 1000000000LL;
    return 0;
}

int gettimeofday(struct timeval *tv, void *tz)
{
    long long t = mono_ns + wall_off;
    (void)tz;
    tv->tv_sec = t / 1000000000LL;
    tv->tv_usec = (t % 1000000000LL) / 1000;
    return 0;
}

time_t time(time_t *t)
{
    time_t r = (mono_ns + wall_off) / 1000000000LL;
    if (t)
        *t = r;
    return r;
}

/* ---------------------------------------------------------------- notes */

static struct char_vector notes;
static int ctl_in = 3, ctl_out = 4;
static int in_wr = -1, out_fd = -1;
static off_t out_pos;
/* VERIF_SOCKPAIR: the server channel is one socket, as when the ircd runs its helper on a socketpair - the daemon's
 * stdin and stdout are the same open file description.  The host keeps the other end: it writes the input there
 * and reads the daemon's output from it. */
static int sock_mode, sock_peer = -1;
static char *sock_acc;
static size_t sock_acc_n;
static int stall_next;

/* The process id is a source of nondeterminism too (a daemon may put it into a log line): simulated.  Nothing in
 * the host or in libc's raise() goes through this symbol. */
pid_t getpid(void)
{
    return 4242;
}

static void sock_bufs(int small)
{
    int v = small ? 2304 : (32 << 20);
    if (small) {
        setsockopt(1, SOL_SOCKET, SO_SNDBUF, &v, sizeof v);
    } else {
        /* as large as the system allows: the plain options are clamped to the sysctl limits, the FORCE ones need a
         * privilege the sandbox may not give */
        setsockopt(1, SOL_SOCKET, SO_SNDBUF, &v, sizeof v);
        setsockopt(sock_peer, SOL_SOCKET, SO_RCVBUF, &v, sizeof v);
        setsockopt(sock_peer, SOL_SOCKET, SO_SNDBUF, &v, sizeof v);
        setsockopt(0, SOL_SOCKET, SO_RCVBUF, &v, sizeof v);
        setsockopt(1, SOL_SOCKET, SO_SNDBUFFORCE, &v, sizeof v);
        setsockopt(sock_peer, SOL_SOCKET, SO_RCVBUFFORCE, &v, sizeof v);
        setsockopt(sock_peer, SOL_SOCKET, SO_SNDBUFFORCE, &v, sizeof v);
        setsockopt(0, SOL_SOCKET, SO_RCVBUFFORCE, &v, sizeof v);
    }
}

static int sock_capacity(void)
{
    int v = 0;
    socklen_t l = sizeof v;
    getsockopt(1, SOL_SOCKET, SO_SNDBUF, &v, &l);
    return v;
}

static void sock_drain(void)
{
    char buf[65536];
    ssize_t r;
    while ((r = recv(sock_peer, buf, sizeof buf, MSG_DONTWAIT)) > 0) {
        sock_acc = realloc(sock_acc, sock_acc_n + r + 1);
        memcpy(sock_acc + sock_acc_n, buf, r);
        sock_acc_n += r;
    }
}
static int broke;
static int dispatch_reached;

__attribute__((format(printf, 1, 2)))
void sim_note(const char *fmt, ...)
{
    va_list ap;
    va_start(ap, fmt);
    char_vector_append_vprintf(&notes, fmt, ap);
    va_end(ap);
    char_vector_append_count(&notes, "\n", 1);
}

static void enc_raw(struct char_vector *cv, const char *s)
{
    static const char hex[] = "0123456789abcdef";
    for (; *s; s++) {
        unsigned char c = *s;
        if (c <= 32 || c >= 127 || c == '%' || c == '/') {
            char b[3] = { '%', hex[c >> 4], hex[c & 15] };
            char_vector_append_count(cv, b, 3);
        } else
            char_vector_append_count(cv, (const char *)&c, 1);
    }
}

/* nullable value: "-" for NULL, "=<encoded>" otherwise */
static void enc(struct char_vector *cv, const char *s)
{
    if (!s) {
        char_vector_append_count(cv, "-", 1);
        return;
    }
    char_vector_append_count(cv, "=", 1);
    enc_raw(cv, s);
}

static char *dec(const char *s)
{
    /* "-" -> NULL, "=..." -> percent-decoded copy (kept reachable). */
    char *out, *o;
    if (!s || s[0] == '-')
        return NULL;
    if (s[0] == '=')
        s++;
    out = o = malloc(strlen(s) + 1);
    while (*s) {
        if (s[0] == '%' && s[1] && s[2]) {
            char b[3] = { s[1], s[2], 0 };
            *o++ = (char)strtol(b, NULL, 16);
            s += 3;
        } else
            *o++ = *s++;
    }
    *o = 0;
    return out;
}

/* Strings handed to conf_register_*() must outlive the daemon; keep them
 * reachable so LeakSanitizer does not count them. */
static char **keep;
static unsigned keep_n, keep_sz;
static char *keepstr(char *s)
{
    if (!s)
        return s;
    if (keep_n == keep_sz) {
        keep_sz = keep_sz ? keep_sz * 2 : 64;
        keep = realloc(keep, keep_sz * sizeof(*keep));
    }
    keep[keep_n++] = s;
    return s;
}

/* ------------------------------------------------------- fault injection */

static int rdfault_errno, rdfault_count;
static int freadfault_count;
static unsigned long n_readv, n_rdfault_fired, n_freadfault_fired;

ssize_t readv(int fd, const struct iovec *iov, int iovcnt)
{
    static ssize_t (*real)(int, const struct iovec *, int);
    if (!real)
        real = dlsym(RTLD_NEXT, "readv");
    if (fd == 0) {
        n_readv++;
        if (rdfault_count > 0) {
            rdfault_count--;
            n_rdfault_fired++;
            sim_note("RDFAULT fired errno=%d", rdfault_errno);
            errno = rdfault_errno;
            return -1;
        }
    }
    return real(fd, iov, iovcnt);
}

size_t __real_fread(void *ptr, size_t size, size_t n, FILE *f);
static long freadshort;
size_t __wrap_fread(void *ptr, size_t size, size_t n, FILE *f)
{
    if (freadshort > 0 && n > 0 && size > 0) {
        /* a short count without error or end of file (as when a signal interrupts the read underneath): the
         * caller may give up or go on reading, but must not take what it has for the whole file */
        size_t total = size * n, want = (size_t)freadshort < total ? (size_t)freadshort : total, got;
        freadshort = 0;
        n_freadfault_fired++;
        got = __real_fread(ptr, 1, want, f);
        sim_note("FREADSHORT fired %zu of %zu bytes", got, total);
        return size ? got / size : 0;
    }
    if (freadfault_count > 0) {
        freadfault_count--;
        n_freadfault_fired++;
        sim_note("FREADFAULT fired");
        errno = EIO;
        return 0;
    }
    return __real_fread(ptr, size, n, f);
}

int __real_conf_read(const char *filename);
int __wrap_conf_read(const char *filename)
{
    int r = __real_conf_read(filename);
    sim_note("CONFREAD %d", r);
    return r;
}

/* ------------------------------------------------------------- conf dump */

static void path_of(struct conf_node_base *n, struct char_vector *cv)
{
    if (n->parent && n->parent->base.parent) {
        path_of(&n->parent->base, cv);
        char_vector_append_count(cv, "/", 1);
    }
    enc_raw(cv, n->name);
}

static void hook(struct conf_node_base *n)
{
    struct char_vector cv;
    memset(&cv, 0, sizeof cv);
    path_of(n, &cv);
    char_vector_append_count(&cv, "", 1);
    sim_note("HOOK %d %s", (int)n->type, cv.vec);
    free(cv.vec);
}

static void dump(struct conf_node_object *o, const char *pfx)
{
    struct set_node *it;
    for (it = set_first(&o->contents); it; it = set_next(it)) {
        struct conf_node_base *b = set_node_data(it);
        struct char_vector p, cv;
        memset(&p, 0, sizeof p);
        memset(&cv, 0, sizeof cv);
        char_vector_append_string(&p, pfx);
        if (*pfx)
            char_vector_append_count(&p, "/", 1);
        enc_raw(&p, b->name);
        char_vector_append_count(&p, "", 1);
        char_vector_append_printf(&cv, "N %d s%d p%d h%d %s", (int)b->type,
                                  b->specified, b->present, b->hook == hook, p.vec);
        if (b->parent != o)
            char_vector_append_string(&cv, " BADPARENT");
        if (b->type == CONF_STRING) {
            struct conf_node_string *s = (void *)b;
            char_vector_append_printf(&cv, " sub%d ", (int)s->subtype);
            enc(&cv, s->value);
            switch (s->subtype) {
            case CONF_STRING_PLAIN:
                /* the typed view of a plain string must deliver the same text (same buffer or a copy:
                 * that is the implementation's business) */
                char_vector_append_string(&cv, (s->parsed.p_string == s->value
                                                || (s->parsed.p_string && s->value
                                                    && !strcmp(s->parsed.p_string, s->value))) ? " P="
                                               : s->parsed.p_string ? " P!" : " P0");
                break;
            case CONF_STRING_FLOAT:
                char_vector_append_printf(&cv, " F%.17g", s->parsed.p_double);
                break;
            case CONF_STRING_BOOLEAN:
                char_vector_append_printf(&cv, " B%d", s->parsed.p_boolean);
                break;
            default:
                char_vector_append_printf(&cv, " I%u", s->parsed.p_interval);
            }
        } else if (b->type == CONF_INADDR) {
            struct conf_node_inaddr *a = (void *)b;
            char_vector_append_count(&cv, " ", 1);
            enc(&cv, a->hostname);
            char_vector_append_count(&cv, " ", 1);
            enc(&cv, a->service);
        } else if (b->type == CONF_STRING_LIST) {
            struct conf_node_string_list *l = (void *)b;
            unsigned i;
            char_vector_append_printf(&cv, " [%u]", l->value.used);
            for (i = 0; i < l->value.used; i++) {
                char_vector_append_count(&cv, " ", 1);
                enc(&cv, l->value.vec[i]);
            }
        }
        char_vector_append_count(&cv, "", 1);
        sim_note("%s", cv.vec);
        free(cv.vec);
        if (b->type == CONF_OBJECT)
            dump((void *)b, p.vec);
        free(p.vec);
    }
}

static struct conf_node_object *obj_path(char *path, char **leaf)
{
    struct conf_node_object *o = NULL;
    char *s = path, *sl;
    while ((sl = strchr(s, '/'))) {
        *sl = 0;
        o = conf_register_object(o, keepstr(dec(s)));
        if (!o->base.hook)
            o->base.hook = hook;
        s = sl + 1;
    }
    *leaf = s;
    return o;
}

/* REG <kind> <path> [args...]; kind = obj | list | inaddr | 0..5 (string
 * subtype).  All tokens after kind are percent-encoded ("-" = NULL). */
static void do_reg(char *line)
{
    char *tok[40], *sv, *t, *leaf, *path;
    int n = 0;
    struct conf_node_object *o;
    struct conf_node_base *b = NULL;

    for (t = strtok_r(line, " \n", &sv); t && n < 40; t = strtok_r(NULL, " \n", &sv))
        tok[n++] = t;
    if (n < 2)
        return;
    path = strdup(tok[1]);
    o = obj_path(path, &leaf);
    leaf = keepstr(dec(leaf));
    if (!strcmp(tok[0], "obj"))
        b = &conf_register_object(o, leaf)->base;
    else if (!strcmp(tok[0], "list")) {
        struct string_vector sv2;
        int i;
        memset(&sv2, 0, sizeof sv2);
        for (i = 2; i < n; i++)
            string_vector_append(&sv2, keepstr(dec(tok[i])));
        b = &conf_register_string_list_sv(o, leaf, &sv2)->base;
        free(sv2.vec);
    } else if (!strcmp(tok[0], "listv")) {
        /* the varargs flavour, at most three defaults */
        char *d[3] = { NULL, NULL, NULL };
        int i;
        for (i = 2; i < n && i < 5; i++)
            d[i - 2] = keepstr(dec(tok[i]));
        b = &conf_register_string_list(o, leaf, d[0], d[0] ? d[1] : NULL,
                                       (d[0] && d[1]) ? d[2] : NULL, NULL)->base;
    } else if (!strcmp(tok[0], "inaddr"))
        b = &conf_register_inaddr(o, leaf, n > 2 ? keepstr(dec(tok[2])) : NULL,
                                  n > 3 ? keepstr(dec(tok[3])) : NULL)->base;
    else
        b = &conf_register_string(o, atoi(tok[0]), leaf,
                                  n > 2 ? keepstr(dec(tok[2])) : NULL)->base;
    b->hook = hook;
    free(path);
}

/* HOOKALL: give every node of the live tree that has no change hook the logging hook, the way src/log.c and
 * the decision modules hook the entries of their sections (directly, without conf_register_*). */
static void hook_all(struct conf_node_object *o)
{
    struct set_node *it;
    for (it = set_first(&o->contents); it; it = set_next(it)) {
        struct conf_node_base *b = set_node_data(it);
        if (!b->hook)
            b->hook = hook;
        if (b->type == CONF_OBJECT)
            hook_all((void *)b);
    }
}

/* ---------------------------------------------------------- set auditing */

static unsigned audit_fail;

static unsigned audit_tree(struct set *set, struct set_node *n, struct set_node **prev,
                           unsigned depth)
{
    unsigned c = 0;
    if (!n)
        return 0;
    if (depth > 100000) {
        audit_fail++;
        return 0;
    }
    c += audit_tree(set, n->l, prev, depth + 1);
    if (*prev) {
        if (set->compare(set_node_data(*prev), set_node_data(n)) >= 0) {
            sim_note("AUDIT FAIL order");
            audit_fail++;
        }
        if ((*prev)->next != n || n->prev != *prev) {
            sim_note("AUDIT FAIL list-vs-tree");
            audit_fail++;
        }
    } else if (n->prev) {
        sim_note("AUDIT FAIL first-has-prev");
        audit_fail++;
    }
    *prev = n;
    c++;
    c += audit_tree(set, n->r, prev, depth + 1);
    return c;
}

static unsigned audit_set(struct set *set, const char *what)
{
    struct set_node *prev = NULL;
    unsigned c = audit_tree(set, set->root, &prev, 0);
    if (prev && prev->next) {
        sim_note("AUDIT FAIL last-has-next %s", what);
        audit_fail++;
    }
    if (c != set->count) {
        sim_note("AUDIT FAIL count %s tree=%u count=%u", what, c, set->count);
        audit_fail++;
    }
    return c;
}

static void audit_conf(struct conf_node_object *o)
{
    struct set_node *it;
    audit_set(&o->contents, "conf");
    for (it = set_first(&o->contents); it; it = set_next(it)) {
        struct conf_node_base *b = set_node_data(it);
        if (b->type == CONF_OBJECT)
            audit_conf((void *)b);
    }
}

static void do_audit(const char *arg)
{
    /* Tripwire, not a claim about the containers: the configuration tree is walked through the public structs of
     * src/config.h, and every client the model holds live is looked up with the modules' own public
     * iauth_find_request().  How the request table is stored is the daemon's business (a variant keeps it in a
     * hash table): nothing of its layout is touched here. */
    unsigned before = audit_fail;
    long nreq = -1;
    audit_conf(conf_get_root());
    if (arg && *arg && *arg != '\n') {
        struct iauth_request *(*find)(int) = dlsym(RTLD_DEFAULT, "iauth_find_request");
        char *c = strdup(arg), *sv, *t;
        nreq = 0;
        for (t = strtok_r(c, ",\n", &sv); t; t = strtok_r(NULL, ",\n", &sv)) {
            if (find && find(atoi(t)))
                nreq++;
            else
                sim_note("AUDIT MISSING %d", atoi(t));
        }
        free(c);
    }
    sim_note("AUDIT %s nreq=%ld", audit_fail == before ? "ok" : "FAIL", nreq);
}

/* --------------------------------------------------------------- driver */

static ssize_t rd_full(int fd, void *buf, size_t n)
{
    size_t got = 0;
    while (got < n) {
        ssize_t r = read(fd, (char *)buf + got, n - got);
        if (r < 0 && errno == EINTR)
            continue;
        if (r <= 0)
            return -1;
        got += r;
    }
    return got;
}

static void wr_full(int fd, const void *buf, size_t n)
{
    size_t put = 0;
    while (put < n) {
        ssize_t r = write(fd, (const char *)buf + put, n - put);
        if (r < 0 && errno == EINTR)
            continue;
        if (r <= 0)
            _exit(99);
        put += r;
    }
}

static int rd_line(int fd, char *buf, size_t sz)
{
    size_t n = 0;
    while (n + 1 < sz) {
        char c;
        ssize_t r = read(fd, &c, 1);
        if (r < 0 && errno == EINTR)
            continue;
        if (r <= 0)
            return -1;
        buf[n++] = c;
        if (c == '\n')
            break;
    }
    buf[n] = 0;
    return n;
}

static void reply(const char *status)
{
    struct stat st;
    size_t n;
    char *b, hdr[96];
    int hl;

    /* Only what the daemon itself has flushed counts as written to the server channel during a step: its
     * stdout is fully buffered here (a memfd) exactly as it is on the pipe or socket to the ircd, so a
     * message it forgets to flush stays invisible, as it would in production, until something else flushes. */
    if (!strncmp(status, "EXIT", 4) || !strcmp(status, "TEARDOWN"))
        fflush(stdout);
    if (sock_mode) {
        sock_drain();
        n = sock_acc_n;
        b = malloc(n + 1);
        if (n)
            memcpy(b, sock_acc, n);
        sock_acc_n = 0;
    } else {
    fstat(out_fd, &st);
    n = st.st_size - out_pos;
    b = malloc(n + 1);
    if (n && pread(out_fd, b, n, out_pos) != (ssize_t)n)
        n = 0;
    out_pos += n;
    }
    hl = snprintf(hdr, sizeof hdr, "%s %zu %u\n", status, n, notes.used);
    wr_full(ctl_out, hdr, hl);
    if (n)
        wr_full(ctl_out, b, n);
    if (notes.used)
        wr_full(ctl_out, notes.vec, notes.used);
    notes.used = 0;
    free(b);
}

static void loop_once(struct event_base *b)
{
    if (broke)
        return;
    event_base_loop(b, EVLOOP_NONBLOCK);
    if (event_base_got_break(b))
        broke = 1;
}

static void step(struct event_base *b)
{
    int pend, guard = 0, stalled = 0;
    if (sock_mode && stall_next) {
        /* the server is slow to read for the length of this step.  A daemon whose end of the channel is blocking
         * just waits for it - nothing is lost, which the large buffer stands for.  One that has made the shared
         * description non-blocking gets EAGAIN once the small socket buffer is full and has to cope. */
        stall_next = 0;
        if (fcntl(1, F_GETFL) & O_NONBLOCK) {
            sock_bufs(1);
            stalled = 1;
            sim_note("PEERSLOW channel is non-blocking: small socket buffer");
        } else
            sim_note("PEERSLOW channel is blocking: the daemon would wait");
    }
    do {
        loop_once(b);
        pend = 0;
        ioctl(0, FIONREAD, &pend);
    } while (pend > 0 && !broke && ++guard < 100000);
    if (pend > 0 && !broke)
        sim_note("STALL pending=%d", pend);
    if (stalled) {
        sock_bufs(0);
        sock_drain();
    }
    /* a few more passes with the clock standing still: work that a handler deferred to "the next pass of the
     * loop" (a zero-timeout event, an activated event) belongs to this step as well */
    loop_once(b);
    loop_once(b);
    loop_once(b);
    loop_once(b);
}

static void feed(struct event_base *b, const char *buf, size_t n)
{
    size_t put = 0;
    while (put < n && !broke) {
        ssize_t r = write(in_wr, buf + put, n - put);
        if (r < 0 && errno == EAGAIN) {
            int before;
            ioctl(0, FIONREAD, &before);
            loop_once(b); /* let the daemon drain some */
            {
                int after;
                ioctl(0, FIONREAD, &after);
                if (after >= before && rdfault_count == 0) {
                    sim_note("STALL write");
                    break;
                }
            }
            continue;
        }
        if (r <= 0)
            break;
        put += r;
    }
    step(b);
}

/* File times are part of the simulated world too: whatever the controller wrote last carries the simulated
 * wall-clock time of the moment the operator signals (the kernel would have stamped it with the real time of
 * day, which no seed controls).  A daemon that looks at the file's time stamp sees simulated time. */
static const char *conf_path;
static void stamp_conf(void)
{
    struct timespec ts[2];
    if (!conf_path)
        return;
    ts[0].tv_sec = ts[1].tv_sec = (mono_ns + wall_off) / 1000000000LL;
    ts[0].tv_nsec = ts[1].tv_nsec = (mono_ns + wall_off) % 1000000000LL;
    utimensat(AT_FDCWD, conf_path, ts, 0);
}

int event_base_dispatch(struct event_base *b)
{
    char hdr[4096];

    dispatch_reached = 1;
    step(b);
    if (sock_mode)
        sim_note("SOCKBUF %d", sock_capacity());
    reply("READY");
    while (rd_line(ctl_in, hdr, sizeof hdr) > 0) {
        if (!strncmp(hdr, "FEED ", 5)) {
            size_t n = atol(hdr + 5);
            char *buf = malloc(n + 1);
            if (rd_full(ctl_in, buf, n) < 0)
                _exit(98);
            feed(b, buf, n);
            free(buf);
        } else if (!strncmp(hdr, "ADV ", 4)) {
            mono_ns += atoll(hdr + 4);
            step(b);
        } else if (!strncmp(hdr, "WALL ", 5)) {
            wall_off += atoll(hdr + 5);
            step(b);
        } else if (!strncmp(hdr, "SIG ", 4)) {
            int sig = !strncmp(hdr + 4, "HUP", 3) ? SIGHUP : SIGUSR1;
            int cnt = atoi(hdr + 8);
            stamp_conf();
            do {
                raise(sig);
            } while (--cnt > 0);
            step(b);
        } else if (!strncmp(hdr, "RAISE ", 6)) {
            /* signal now, but do not let the loop run yet */
            stamp_conf();
            raise(!strncmp(hdr + 6, "HUP", 3) ? SIGHUP : SIGUSR1);
        } else if (!strncmp(hdr, "RDFAULT ", 8)) {
            rdfault_errno = !strncmp(hdr + 8, "EINTR", 5) ? EINTR : EAGAIN;
            rdfault_count = atoi(hdr + 14) > 0 ? atoi(hdr + 14) : 1;
        } else if (!strncmp(hdr, "PEERSTALL", 9)) {
            stall_next = 1;
        } else if (!strncmp(hdr, "FREADSHORT ", 11)) {
            freadshort = atol(hdr + 11);
        } else if (!strncmp(hdr, "FREADFAULT", 10)) {
            freadfault_count = 1;
        } else if (!strncmp(hdr, "EOF", 3)) {
            if (sock_mode)
                shutdown(sock_peer, SHUT_WR);
            else if (in_wr >= 0)
                close(in_wr);
            in_wr = -1;
            step(b);
        } else if (!strncmp(hdr, "STEP", 4)) {
            step(b);
        } else if (!strncmp(hdr, "REG ", 4)) {
            do_reg(hdr + 4);
        } else if (!strncmp(hdr, "LOG ", 4)) {
            char *sv, *fac = strtok_r(hdr + 4, " \n", &sv);
            char *sev = strtok_r(NULL, " \n", &sv);
            char *txt = strtok_r(NULL, "\n", &sv);
            if (fac && sev && txt)
                log_message(log_type_register(keepstr(strdup(fac)), NULL), atoi(sev), "%s", txt);
        } else if (!strncmp(hdr, "HOOKALL", 7)) {
            hook_all(conf_get_root());
        } else if (!strncmp(hdr, "DUMPCONF", 8)) {
            dump(conf_get_root(), "");
        } else if (!strncmp(hdr, "AUDIT", 5)) {
            do_audit(hdr[5] == ' ' ? hdr + 6 : NULL);
        } else if (!strncmp(hdr, "COUNTERS", 8)) {
            sim_note("COUNTERS readv=%lu rdfault=%lu freadfault=%lu", n_readv,
                     n_rdfault_fired, n_freadfault_fired);
        } else {
            sim_note("BADCMD %s", hdr);
        }
        reply(broke ? "BREAK" : "OK");
        if (broke)
            break;
    }
    return 0;
}

static void done(void)
{
    /* Runs after the daemon's own atexit chain (registered earlier, so
     * called later): proves the teardown completed and carries the notes
     * written by module destructors. */
    reply("TEARDOWN");
}

/* exitcode=77 marks every sanitizer-detected error; leaks are off unless the
 * controller turns them on through ASAN_OPTIONS. */
__attribute__((used)) const char *__asan_default_options(void)
{
    return "exitcode=77:detect_leaks=0:abort_on_error=0:handle_abort=1";
}

__attribute__((used)) const char *__ubsan_default_options(void)
{
    return "print_stacktrace=0:halt_on_error=0";
}

int main(int argc, char **argv)
{
    int p[2], rc;
    char s[32];
    char *av[8];
    int ac = 0;

    if (argc < 2) {
        fprintf(stderr, "usage: simhost <config> [daemon args...]  (fds 3/4 = control)\n");
        return 2;
    }
    signal(SIGPIPE, SIG_IGN);
    if (getenv("VERIF_SOCKPAIR")) {
        int sv[2];
        if (socketpair(AF_UNIX, SOCK_STREAM, 0, sv))
            return 2;
        dup2(sv[0], 0);
        dup2(sv[0], 1);
        close(sv[0]);
        sock_peer = in_wr = sv[1];
        sock_mode = 1;
        sock_bufs(0);
        fcntl(sock_peer, F_SETFL, O_NONBLOCK);
        /* (the daemon's end is left as it is: whether it is blocking is the daemon's decision here) */
    } else {
    if (pipe(p))
        return 2;
    dup2(p[0], 0);
    close(p[0]);
    in_wr = p[1];
    fcntl(in_wr, F_SETPIPE_SZ, 1 << 20);
    fcntl(0, F_SETFL, O_NONBLOCK);
    fcntl(in_wr, F_SETFL, O_NONBLOCK);
    out_fd = memfd_create("simhost-stdout", 0);
    dup2(out_fd, 1);
    }
    atexit(done);
    if (getenv("VERIF_PREQUEUE")) {
        /* the server wrote these bytes while the daemon was still starting: they are readable on the channel
         * when the event loop makes its very first pass */
        FILE *f = fopen(getenv("VERIF_PREQUEUE"), "rb");
        if (f) {
            static char pq[1 << 19];
            size_t n = fread(pq, 1, sizeof pq, f);
            fclose(f);
            if (n && write(in_wr, pq, n) != (ssize_t)n)
                _exit(98);
        }
    }

    if (getenv("VERIF_PREREG")) {
        /* settings "registered before loading" (C15) */
        char *c = strdup(getenv("VERIF_PREREG")), *sv, *t;
        conf_get_root();
        for (t = strtok_r(c, ";", &sv); t; t = strtok_r(NULL, ";", &sv)) {
            char *l = strdup(t);
            do_reg(l);
            free(l);
        }
        free(c);
        notes.used = 0;
    }

    av[ac++] = "./simhost";
    av[ac++] = "-n";
    av[ac++] = "-f";
    av[ac++] = argv[1];
    conf_path = argv[1];
    stamp_conf();
    if (argc > 2 && ac < 7)
        av[ac++] = argv[2];
    av[ac] = NULL;
    rc = iauthd_main(ac, av);
    snprintf(s, sizeof s, "EXIT%d", rc);
    sim_note("DISPATCH %d", dispatch_reached);
    reply(s);
    return rc;
}
