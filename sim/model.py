"""Shared observation model pieces: IAuth output grammar (C09), address
utilities (independent of the daemon's parser/printer: libc inet_pton), the
password-shape rule of DESIGN 4.1, libc fnmatch for the class-rule evaluator.
"""
import re, socket, ctypes, ctypes.util

_libc = ctypes.CDLL(ctypes.util.find_library("c") or "libc.so.6")
_libc.fnmatch.argtypes = [ctypes.c_char_p, ctypes.c_char_p, ctypes.c_int]


def fnm(pat, s):
    return _libc.fnmatch(pat.encode("latin1"), s.encode("latin1"), 0) == 0


# ----------------------------------------------------------------- addresses

def addr_value(txt):
    """128-bit value of an address text by the standard library parser;
    plain IPv4 is taken as IPv4-mapped.  None if neither family accepts."""
    try:
        return socket.inet_pton(socket.AF_INET6, txt)
    except (OSError, ValueError):
        pass
    try:
        return b"\0" * 10 + b"\xff\xff" + socket.inet_pton(socket.AF_INET, txt)
    except (OSError, ValueError):
        return None


def canon(val):
    """IPv4-compatible (::a.b.c.d with non-zero high half) canonicalises to
    IPv4-mapped, as C12 allows and as the daemon's printer does."""
    if val is None:
        return None
    if val[:12] == b"\0" * 12 and val[12:14] != b"\0\0":
        return b"\0" * 10 + b"\xff\xff" + val[12:]
    return val


def groups_to_text(groups, rnd=None, style=None):
    """Spell 8 16-bit groups the way ircd does (never a leading ':'; '::'
    stands for >= 2 groups).  style: 'full' | 'canon' | 'anyrun' | 'pad'."""
    style = style or "canon"
    runs = []
    i = 0
    while i < 8:
        if groups[i] == 0:
            j = i
            while j < 8 and groups[j] == 0:
                j += 1
            if j - i >= 2:
                runs.append((j - i, i))
            i = j
        else:
            i += 1
    if style == "pad":
        return ":".join("%04x" % g for g in groups)
    if style == "full" or not runs:
        return ":".join("%x" % g for g in groups)
    if style == "anyrun" and rnd is not None:
        n, s = rnd.choice(runs)
    else:
        n, s = max(runs, key=lambda r: (r[0], -r[1]))
    left = ":".join("%x" % g for g in groups[:s])
    right = ":".join("%x" % g for g in groups[s + n:])
    t = left + "::" + right
    if t.startswith(":"):
        t = "0" + t
    return t


def gen_addr(rnd, family=None):
    """-> (text as announced, 16-byte value).  Sampled over the abstraction
    that drives the printer: zero / 1-4 digit pattern of each group, all zero
    run shapes, v4-mapped and v4-compatible forms."""
    k = rnd.random() if family is None else {"v4": 0.0, "v6": 0.9, "compat": 0.45}[family]
    if k < 0.4:
        b = [rnd.choice([0, 1, 9, 10, 99, 100, 127, 192, 255, rnd.randrange(256)]) for _ in range(4)]
        if b[0] == 0 and b[1] == 0:
            b[0] = 10
        txt = "%d.%d.%d.%d" % tuple(b)
        return txt, b"\0" * 10 + b"\xff\xff" + bytes(b)
    if k < 0.5:
        b = [rnd.randrange(256) for _ in range(4)]
        if b[0] == 0 and b[1] == 0:
            b[1] = 1
        form = rnd.choice(["0::ffff:%d.%d.%d.%d", "0::%d.%d.%d.%d", "0:0:0:0:0:ffff:%d.%d.%d.%d"])
        txt = form % tuple(b)
        if rnd.random() < 0.2:
            txt = txt.upper()
        return txt, addr_value(txt)
    def digits(n):
        lo = [0, 1, 0x10, 0x100, 0x1000][n]
        hi = [0, 0xf, 0xff, 0xfff, 0xffff][n]
        return rnd.choice([lo, hi, rnd.randint(lo, hi)]) if n else 0
    mode = rnd.random()
    if mode < 0.55:
        pz = rnd.choice([0.2, 0.5, 0.7, 0.85])
        groups = [0 if rnd.random() < pz else
                  rnd.choice([1, 0xf, 0x12, 0xff, 0x123, 0xfff, 0x1234, 0xffff, rnd.randrange(1, 65536)])
                  for _ in range(8)]
    elif mode < 0.7:
        # the zero / 1-4 digit pattern of each group, sampled uniformly
        groups = [digits(rnd.randrange(5)) for _ in range(8)]
    elif mode < 0.8:
        # every group at full width: the longest possible text (39 characters)
        groups = [digits(4) for _ in range(8)]
    elif mode < 0.9:
        k = rnd.randint(1, 4)
        groups = [digits(k) for _ in range(8)]
    else:
        # one zero run of every length at every position, the rest full width
        n = rnd.randint(1, 7)
        at = rnd.randint(0, 8 - n)
        groups = [0 if at <= i < at + n else digits(rnd.choice([1, 4, 4])) for i in range(8)]
    if groups[:5] == [0] * 5 and groups[5] in (0, 0xffff) and groups[6] != 0:
        groups[0] = 1       # would be an IPv4-mapped/-compatible form: covered by the branch above
    style = rnd.choice(["canon", "canon", "full", "anyrun", "pad"])
    txt = groups_to_text(groups, rnd, style)
    if rnd.random() < 0.2:
        # hex digits in upper or mixed case denote the same address
        txt = txt.upper() if rnd.random() < 0.5 else "".join(c.upper() if rnd.random() < 0.5 else c for c in txt)
    val = b"".join(g.to_bytes(2, "big") for g in groups)
    assert addr_value(txt) == val, (txt, groups)
    return txt, val


def prefix_match(a, b, bits):
    ai = int.from_bytes(a, "big")
    bi = int.from_bytes(b, "big")
    return bits == 0 or (ai >> (128 - bits)) == (bi >> (128 - bits))


def mask_value(txt):
    """Independent reading of a rule's address criterion: CIDR or wildcard.
    -> (16-byte network, bits)"""
    if "/" in txt:
        a, b = txt.split("/")
        bits = int(b)
        v = addr_value(a)
        return v, (bits if ":" in a else bits + 96)
    if txt.endswith("*"):
        parts = txt.rstrip("*")
        if parts == "":
            return b"\0" * 16, 0
        if ":" in parts:
            gs = [g for g in parts.split(":") if g]
            v = b"".join(int(g, 16).to_bytes(2, "big") for g in gs) + b"\0" * (16 - 2 * len(gs))
            return v, 16 * len(gs)
        os_ = [o for o in parts.split(".") if o]
        v = b"\0" * 10 + b"\xff\xff" + bytes(int(o) for o in os_) + b"\0" * (4 - len(os_))
        return v, 96 + 8 * len(os_)
    v = addr_value(txt)
    return v, 128


# ------------------------------------------------------------ output grammar

_TXT = r"[^\r\n\0]*"
_WORD = r"[^ \r\n\0:][^ \r\n\0]*"
_ID = r"-?\d+"
_ADDR = r"[0-9A-Fa-f.][0-9A-Fa-f:.]*"
_PORT = r"\d+"
_CLI = r"(?P<id>%s) (?P<addr>%s) (?P<port>%s)" % (_ID, _ADDR, _PORT)

GRAMMAR = [
    ("V", re.compile(r"^V :(?P<text>%s)$" % _TXT)),
    ("O", re.compile(r"^O S[ARTUW]*$")),
    ("a", re.compile(r"^a$")),
    ("s", re.compile(r"^s$")),
    ("A", re.compile(r"^A (?P<name>%s) :(?P<text>%s)$" % (_WORD, _TXT))),
    ("S", re.compile(r"^S (?P<name>%s) :(?P<text>%s)$" % (_WORD, _TXT))),
    (">", re.compile(r"^> :(?P<text>%s)$" % _TXT)),
    ("G", re.compile(r"^G \d+$")),
    ("X", re.compile(r"^X (?P<server>%s) (?P<tag>%s) :(?P<text>%s)$" % (_WORD, _WORD, _TXT))),
    ("oUuN", re.compile(r"^(?P<cmd>[oUuN]) %s (?P<word>%s)$" % (_CLI, _WORD))),
    ("I", re.compile(r"^(?P<cmd>I) %s (?P<word>%s)$" % (_CLI, _ADDR))),
    ("M", re.compile(r"^(?P<cmd>M) %s :?(?P<modes>[+-][A-Za-z+-]*)$" % _CLI)),
    ("C", re.compile(r"^(?P<cmd>C) %s :(?P<text>%s)$" % (_CLI, _TXT))),
    ("kK", re.compile(r"^(?P<cmd>[kK]) %s :(?P<text>%s)$" % (_CLI, _TXT))),
    ("d", re.compile(r"^(?P<cmd>d) %s$" % _CLI)),
    ("D", re.compile(r"^(?P<cmd>D) %s(?: (?P<class>%s))?$" % (_CLI, _WORD))),
    ("R", re.compile(r"^(?P<cmd>R) %s (?P<account>%s)(?: (?P<class>%s))?$" % (_CLI, _WORD, _WORD))),
]


def parse_out(line):
    """-> (kind, groupdict) or (None, None) if the line is not one valid
    IAuth message."""
    if not line:
        return None, None
    c = line[0]
    for kind, rx in GRAMMAR:
        if c in kind or (kind == "oUuN" and c in "oUuN") or (kind == "kK" and c in "kK"):
            m = rx.match(line)
            if m:
                return kind, m.groupdict()
    return None, None


CLIENT_CMDS = "oUuNIMCkKdDR"
VERDICTS = "DRkK"


# ----------------------------------------------------------------- passwords

def wellshaped(t):
    """The documented shape '<modes> <account> <password>' (module header).
    -> (set_modes, cleared_modes, credentials) or None."""
    if not t or t[0] not in "+-":
        return None
    i = 0
    st = None
    m_set, m_clr = set(), set()
    while i < len(t) and t[i] != " ":
        c = t[i]
        if c == "+":
            st = True
        elif c == "-":
            st = False
        elif c in "x!":
            if st:
                m_set.add(c)
                m_clr.discard(c)
            else:
                m_clr.add(c)
                m_set.discard(c)
        i += 1
    if i >= len(t):
        return None
    rest = t[i:].lstrip(" ")
    if " " not in rest:
        return None
    return m_set, m_clr, rest


NICKLEN, USERLEN, HOSTLEN, REALLEN, ACCOUNTLEN, CREDLEN = 30, 10, 63, 50, 64, 511

LOGIN_TYPES = ("login", "login-ipr", "combined")
SVC_TYPES = ("login", "login-ipr", "dronecheck", "combined")

BOOL_TRUE = ("1", "true", "on", "enabled", "yes")
BOOL_FALSE = ("0", "false", "off", "disabled", "no")


def conf_quote(s):
    """Render a string for the config file (always quoted, escapes per the
    documented syntax)."""
    out = ['"']
    for ch in s:
        c = ord(ch)
        if ch in '"\\':
            out.append("\\" + ch)
        elif ch == "\n":
            out.append("\\n")
        elif ch == "\t":
            out.append("\\t")
        elif c < 32 or c >= 127:
            out.append("\\x%02x" % c)
        else:
            out.append(ch)
    out.append('"')
    return "".join(out)
