#!/bin/sh
# memcheck.sh [runs-per-check] [props...]: supplementary pass, not a registered check.  Builds simhost WITHOUT
# sanitizers from /repo's working tree into a scratch directory and runs the first N seeded histories of each
# check's quick tier under `valgrind -q` (memcheck): uninitialised reads, which ASan/UBSan do not report, make the
# daemon exit with ASan's code and are reported by the same pipeline.  Evidence and findings go to the scratch
# directory, never to /verif/evidence.
n=${1:-150}; [ $# -gt 0 ] && shift
props=${*:-C01 C02 C03 C04 C05 C06 C07 C08 C09 C10 C11 C14 C15 C17 C18 C20}
w=/dev/shm/verif.memcheck.$$
mkdir -p $w; rc=0
for p in $props; do
    VERIF_SAN= VERIF_BUILD=$w/build VERIF_EVIDENCE_DIR=$w/ev VERIF_FINDINGS_DIR=$w/fi VERIF_RUNS=$n \
    VERIF_WALL=${VERIF_WALL:-300} VERIF_STEP_TIMEOUT=300 VERIF_HANG_CPU=120 \
    VERIF_HOST_PREFIX="valgrind -q --error-exitcode=77 --child-silent-after-fork=yes" \
    python3 /verif/sim/simctl.py check $p --tier quick | grep -E "^(C[0-9]+ quick|VIOLATION|INFRA|  rule=)" || true
done
[ -d $w/fi ] && ls $w/fi | grep -q . && { echo "replay files kept in $w/fi"; rc=1; } || rm -rf $w
exit $rc
