#!/usr/bin/env python3
"""No-false-alarm self-test: apply each behaviour-preserving variant (variants/*/patch.diff: changes under which
every property still holds, written by independent sub-agents who saw only the property texts) to a scratch copy
of /repo's working tree and run the quick check of EVERY claimed property against that copy.  Every check must
exit 0.  /repo itself is never touched.

  variants.py [name-substring ...] [--jobs=2] [--props=C01,C09] [--tier=quick] [--seed=N] [--keep]
"""
import os, sys, subprocess, glob, json, re, time, shutil
from concurrent.futures import ThreadPoolExecutor

sys.path.insert(0, os.path.dirname(os.path.abspath(__file__)))


def sh(*a, **k):
    return subprocess.run(a, capture_output=True, text=True, **k)


def opt(name, default=None):
    return next((a.split("=", 1)[1] for a in sys.argv if a.startswith("--%s=" % name)), default)


def one(item, scratch, props, tier, seed):
    name, patch = item
    slot = scratch + "/" + re.sub(r"[^A-Za-z0-9_.-]", "_", name)
    repo = slot + "/repo"
    os.makedirs(slot)
    sh("rsync", "-a", "--exclude", ".git", "--exclude", "*.o", "--exclude", "*.lo", "--exclude", ".libs",
       "--exclude", "_build", "/repo/", repo + "/")
    a = sh("git", "apply", patch, cwd=repo)
    if a.returncode != 0:
        a = sh("patch", "-p1", "-s", "-i", patch, cwd=repo)
    if a.returncode != 0:
        shutil.rmtree(slot, ignore_errors=True)
        return name, [("-", "apply-failed", a.stderr[:200], 0.0)]
    env = dict(os.environ, VERIF_REPO=repo, VERIF_BUILD=slot + "/build", VERIF_EVIDENCE_DIR=slot + "/ev",
               VERIF_FINDINGS_DIR=slot + "/fi", VERIF_SHRINK="60")
    if seed:
        env["VERIF_SEED"] = seed
    row = []
    for pr in props:
        t = time.time()
        cp = sh(sys.executable, "/verif/sim/simctl.py", "check", pr, "--tier", tier, env=env)
        rules = sorted(set(re.findall(r"^  rule=(\S+)", cp.stdout, re.M)))
        status = {0: "quiet", 1: "ALARM", 2: "infra"}.get(cp.returncode, "rc%d" % cp.returncode)
        if "build of simhost" in cp.stdout:
            status = "build-failed"
        detail = ",".join(rules)
        if status != "quiet":
            detail += " | " + " / ".join(l.strip()[:260] for l in cp.stdout.split("\n") if l.startswith(("  rule=", "INFRA")))[:900]
        row.append((pr, status, detail, time.time() - t))
    if "--keep" not in sys.argv:
        shutil.rmtree(slot, ignore_errors=True)
    return name, row


def main():
    import profiles
    pats = [a for a in sys.argv[1:] if not a.startswith("--")]
    props = (opt("props") or "").split(",") if opt("props") else sorted(profiles.PROPS)
    items = [(os.path.basename(os.path.dirname(f)), f) for f in sorted(glob.glob("/verif/variants/*/patch.diff"))]
    if pats:
        items = [it for it in items if any(p in it[0] for p in pats)]
    scratch = "/dev/shm/verif.variants.%d" % os.getpid()
    shutil.rmtree(scratch, ignore_errors=True)
    os.makedirs(scratch)
    bad = 0
    try:
        with ThreadPoolExecutor(int(opt("jobs", "2"))) as ex:
            for name, row in ex.map(lambda it: one(it, scratch, props, opt("tier", "quick"), opt("seed")), items):
                loud = [(p, s, d) for p, s, d, _ in row if s != "quiet"]
                print("%-45s %s  (%.0fs)" % (name, "all %d checks quiet" % len(row) if not loud else "NOT QUIET", sum(r[3] for r in row)))
                for p, s, d in loud:
                    bad += 1
                    print("    %s %s %s" % (p, s, d))
                sys.stdout.flush()
    finally:
        if "--keep" not in sys.argv:
            shutil.rmtree(scratch, ignore_errors=True)
    print("%d variants, %d alarms" % (len(items), bad))
    sys.exit(1 if bad else 0)


if __name__ == "__main__":
    main()
