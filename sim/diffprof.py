"""Differential / metamorphic profiles built on the protocol profile:

  stray      (C04)  run A = plan, run B = plan + one stray reply line
  interleave (C07)  same client conversations merged under two schedules
  bytes      (C08)  robustness under arbitrary bytes/segmentation/EOF, and
                    segmentation- and junk-indifference of well-formed lines
"""
import copy, json, os, random, shutil, re
import host as H
import proto
from proto import Exec, Gen, gen_cfg, render_cfg, word, NS
from world import Violation
from runner import ddmin
import runner
from profiles import fmt_transcript


def _crash_viol(res):
    return [v for v in res.viol if "C08" in v.props]


# ===================================================================== C04

STRAY_TEXTS = ["OK stolen:1:2", "OK", "NO you are not welcome", "MORE riddle me this", "AGAIN try again", "OK acct"]


def _alias_targets(snap, svcs):
    """(client, service) pairs: the client awaits the entry in table position p >= 32 and was never asked by the
    entry in position p - 32"""
    order = sorted(svcs, key=lambda n: n.lower())
    out = []
    for (c, s) in snap["await"]:
        if s in order and order.index(s) >= 32 and c in snap["tagged"]:
            t = order[order.index(s) - 32]
            if (c, t) not in snap["await"] and (c, t) not in snap["answered"]:
                out.append((c, t))
    return out


def gen_stray(rnd, snap, cfg):
    """Pick a stray reply that must be ignored in the observed state."""
    svcs = sorted((snap or {}).get("services") or cfg["services"]) or ["login.example.org"]     # the table in force now
    fresh = [s for s in svcs if s not in cfg["services"]]       # added by a reload during this history
    kinds = []
    if snap:
        if [c for c in snap["prev"] if c in snap["live"]]:
            kinds += ["stale_live"] * 4
        if [c for c in snap["prev"] if c not in snap["live"]]:
            kinds += ["stale_free"] * 2
        if snap["tagged"]:
            kinds += ["forged", "forged", "unknown_svc", "too_few"]
        if snap["answered"]:
            kinds += ["answered"] * 3
        if snap["tagged"] and len(svcs) > 1:
            kinds += ["never_queried"] * 2
        if snap["tagged"] and fresh:
            kinds += ["never_queried"] * 4      # a newly added service may sit in a recycled slot of the table
        if len(svcs) > 32 and _alias_targets(snap, svcs):
            kinds += ["alias"] * 30             # an entry past the 32nd is awaited: its slot number modulo 32 names another
        if snap.get("waiting") and len(svcs) > 1 and [s for s in cfg["services"] if s not in svcs]:
            kinds += ["never_queried"] * 6      # the table lost an entry during this history: slots may have moved
    if not kinds:
        return None
    k = rnd.choice(kinds)
    text = rnd.choice(STRAY_TEXTS)
    verb = rnd.choice(["X", "X", "X", "x"])
    if verb == "x":
        text = "Server not linked"
    op = {"op": "xreply", "stray": True, "skind": k, "svc": rnd.choice(svcs), "kind": verb, "text": text, "inst": "cur"}
    if k == "stale_live":
        op["cid"] = rnd.choice([c for c in snap["prev"] if c in snap["live"]])
        op["inst"] = rnd.choice(["prev", "prev", "prev:1", "prev:2", "prev:3", "prev:6"])
        aw = [s for (c, s) in snap["await"] if c == op["cid"]]
        if aw and rnd.random() < 0.7:
            op["svc"] = rnd.choice(aw)      # the newcomer is waiting for this very service
    elif k == "stale_free":
        op["cid"] = rnd.choice([c for c in snap["prev"] if c not in snap["live"]])
        op["inst"] = rnd.choice(["prev", "prev:1", "prev:3"])
    elif k == "forged":
        op["cid"] = rnd.choice(snap["tagged"])
        op["inst"] = "forged:" + rnd.choice(["nounderscore", "trail", "nonhex", "empty", "under2", "noserial", "serial+1",
                                              "serial-trunc", "serial-trunc", "serial-extend", "id-extend", "id-garbage", "id-garbage"])
        aw = [s for (c, s) in snap["await"] if c == op["cid"]]
        if aw and rnd.random() < 0.7:
            op["svc"] = rnd.choice(aw)
    elif k == "unknown_svc":
        op["cid"] = rnd.choice(snap["tagged"])
        op["svc"] = rnd.choice(["unknown.example.org", op["svc"] + "x", op["svc"].swapcase() if op["svc"].swapcase() != op["svc"] else "zz"])
    elif k == "too_few":
        op["cid"] = rnd.choice(snap["tagged"])
        op["text"] = None
    elif k == "answered":
        op["cid"], op["svc"] = rnd.choice(snap["answered"])
    elif k == "alias":
        op["skind"] = "never_queried"
        op["cid"], op["svc"] = rnd.choice(_alias_targets(snap, svcs))
    elif k == "never_queried":
        waiting = [c for c in snap.get("waiting", []) if c in snap["tagged"]]
        op["cid"] = rnd.choice(waiting if waiting and rnd.random() < 0.7 else snap["tagged"])
        asked = set(s for (c, s) in snap["await"] + snap["answered"] if c == op["cid"])
        rest = [s for s in svcs if s not in asked]
        if not rest:
            return None
        newer = [s for s in rest if s in fresh]
        order = sorted(svcs, key=lambda n: n.lower())
        aw = [s for (c, s) in snap["await"] if c == op["cid"]]
        near = [s for s in rest if any(abs(order.index(s) - order.index(a)) == 1 for a in aw if a in order)]
        op["svc"] = rnd.choice(newer if newer and rnd.random() < 0.7 else near if near and rnd.random() < 0.6 else rest)
        # a table wider than the per-client masks: the entry whose slot number is congruent modulo 32 to an awaited one
        alias = [order[order.index(a) % 32] for a in aw if a in order and order.index(a) >= 32]
        alias = [s for s in alias if s in rest]
        if alias and rnd.random() < 0.8:
            op["svc"] = rnd.choice(alias)
    return op


class StrayProfile:
    name = "stray"

    def _exec(self, cfg, ops, tag, snap=False):
        ex = Exec(cfg, tag=tag, prop="C04", snap=snap)
        if not ex.res.infra:
            for op in ops:
                if not ex.apply(op):
                    break
        return ex.finish()

    def evaluate(self, plan, tag):
        """plan["ops"] holds exactly one op with "stray": true."""
        ops = plan["ops"]
        base = [o for o in ops if not o.get("stray")]
        ra = self._exec(plan["cfg"], base, tag + "A")
        rb = self._exec(plan["cfg"], ops, tag + "B")
        rb.extra = dict(getattr(rb, "extra", {}))
        rb.transcript_a = ra.transcript
        viol = []
        if rb.stray_at is None:
            rb.extra["stray_unresolved"] = 1
            rb.nontrivial = False
        elif not rb.stray_silent:
            rb.extra["stray_effective_skipped"] = 1
            rb.nontrivial = False
        else:
            rb.nontrivial = True
            at = rb.stray_at
            so = rb.outputs[at] if at < len(rb.outputs) else None
            if so:
                viol.append(Violation("C04", "stray-output", "the stray line produced output %r" % so[:3]))
            bo = rb.outputs[:at] + rb.outputs[at + 1:]
            if not viol:
                n = max(len(ra.outputs), len(bo))
                for j in range(n):
                    a = ra.outputs[j] if j < len(ra.outputs) else "<missing>"
                    b = bo[j] if j < len(bo) else "<missing>"
                    if a != b:
                        viol.append(Violation("C04", "stray-effect",
                                              "step %d (%d after the stray line) differs: without stray %r, with stray %r" %
                                              (j, j - at, a if a == "<missing>" else a[:4], b if b == "<missing>" else b[:4])))
                        break
            if not viol and (ra.exit.rc, ra.exit.teardown) != (rb.exit.rc, rb.exit.teardown):
                viol.append(Violation("C04", "stray-effect", "exit differs: %s vs %s" % (ra.exit.rc, rb.exit.rc)))
        # crashes in either run stay attributed to C08/C10; model monitors of run B ride along
        rb.viol = viol + [v for v in rb.viol if "C04" not in v.props or v.rule == "stamp-not-vouched"]
        rb.hash = H.hashlib.sha256((ra.hash + rb.hash).encode()).hexdigest()
        rb.steps += ra.steps
        return rb

    def gen_run(self, rnd, opts, tier, tag):
        o = dict(opts)
        o.update({"min_svc": 1, "snap": True, "w_audit": 0, "prop": "C04", "p_wide": 0.04})
        if "faults" not in o:
            fk = [f for f in proto.FAULT_KINDS if f not in ("cfg_torn", "cfg_garbage", "cfg_missing", "cfg_eio", "cfg_burst",
                                                             "cfg_same", "cfg_timeout", "extreme_ids", "torn_next") and rnd.random() < 0.5]
            o["faults"] = fk + ["cli_reannounce_live", "cli_disconnect"]
        o.setdefault("p_wrap", float(os.environ.get("VERIF_PWRAP", "0.03")))
        o["steps"] = rnd.choice([20, 40, 80, 150, 300])
        o["clients"] = rnd.choice([4, 15, 40, 60])
        o["conc"] = rnd.choice([1, 2, 3])
        plan, ra = proto.run_generated(rnd, o, tag=tag + "G")
        ids = None
        if ra.viol or ra.infra or not ra.snaps:
            ra.nontrivial = False
            return dict(plan, profile="stray"), ra
        nops = len(plan["ops"])
        npos = len(ra.snaps)
        best = None
        tries = o.get("positions", 3 if tier == "quick" else 8)
        agg = None
        for _ in range(tries):
            p = rnd.randrange(1, min(npos, nops - 1) + 1) if min(npos, nops - 1) >= 1 else None
            after = [j + 1 + d for j, o in enumerate(plan["ops"]) if o.get("op") == "reload" and o.get("how") == "tables"
                     for d in range(0, 5) if 1 <= j + 1 + d <= min(npos, nops - 1)]
            if p is not None and after and rnd.random() < 0.4:
                p = rnd.choice(after)       # shortly after the service table changed under the live clients
            if p is not None and len(plan["cfg"]["services"]) > 32:
                wide = [q for q in range(1, min(npos, nops - 1) + 1) if ra.snaps[q - 1] and
                        _alias_targets(ra.snaps[q - 1], sorted(ra.snaps[q - 1].get("services") or plan["cfg"]["services"]))]
                if wide and rnd.random() < 0.8:
                    p = rnd.choice(wide)
            if p is None:
                break
            st = gen_stray(rnd, ra.snaps[p - 1], plan["cfg"])
            if st is None:
                continue
            ops = plan["ops"][:p] + [st] + plan["ops"][p:]
            cand = {"profile": "stray", "cfg": plan["cfg"], "ops": ops}
            res = self.evaluate(cand, tag)
            res.extra["stray_kind_" + st["skind"]] = 1 if res.nontrivial else 0
            if agg is None:
                agg = (cand, res)
            else:
                # fold counters of several positions into one result record
                for k, v in res.extra.items():
                    if isinstance(v, int):
                        agg[1].extra[k] = agg[1].extra.get(k, 0) + v
                agg[1].nontrivial = agg[1].nontrivial or res.nontrivial
                agg[1].steps += res.steps
            if res.viol:
                res.extra = agg[1].extra
                return cand, res
        if agg is None:
            ra.nontrivial = False
            return dict(plan, profile="stray"), ra
        agg[1].extra["pairs"] = tries
        return agg

    def run(self, plan, tag):
        if not any(o.get("stray") for o in plan["ops"]):
            return self._exec(plan["cfg"], plan["ops"], tag)
        return self.evaluate(plan, tag)

    def transcript(self, res):
        out = []
        if getattr(res, "transcript_a", None):
            class R:
                pass
            r = R()
            r.transcript = res.transcript_a
            r.exit = None
            out += ["===== run A (without the stray line) ====="] + fmt_transcript(r)
            out += ["===== run B (with the stray line) ====="]
        return out + fmt_transcript(res)

    def shrink(self, plan, pred, budget):
        cur = copy.deepcopy(plan)

        def test(ops):
            if not any(o.get("stray") for o in ops):
                return False
            c = dict(cur)
            c["ops"] = ops
            return pred(c)
        cur["ops"] = ddmin(cur["ops"], test, budget)
        for sect in ("logs", "rules"):
            if cur["cfg"].get(sect) and budget[0] > 0:
                c = copy.deepcopy(cur)
                c["cfg"][sect] = [] if isinstance(c["cfg"][sect], list) else {}
                budget[0] -= 1
                if pred(c):
                    cur = c
        return cur


runner.register(StrayProfile())


# ===================================================================== C07

def tick_ns(n):
    """n-th announce tick, geometrically decreasing (in whole microseconds) so
    that no later tick can cross a deadline created by an earlier one."""
    return (1 << max(0, 29 - n)) * 1000


class InterleaveProfile:
    name = "interleave"
    T = 7200

    def gen_conv(self, rnd, cfg, cid, tag, timeout, barrier=None, bar_first=False):
        """One client's conversation, generated online in a solo run.  With `barrier` (a reload op that puts new
        service/rule tables in force) the reload happens after a random number of this client's own events
        (before its announce when bar_first); self.last_bar tells after how many."""
        o = {"cfg": cfg, "clients": 1, "conc": 1, "steps": rnd.choice([8, 15, 25, 40]), "drain": False, "w_audit": 0,
             "faults": [f for f in ("cli_hurry", "cli_disconnect", "cli_pass_repeat", "cli_pass_illshaped", "xr_dup",
                                    "xr_unlinked", "xr_notfinal", "xr_not_awaited", "xr_unknown_svc", "seg")
                        if rnd.random() < 0.5],
             "prop": "C07", "solo_cid": cid, "expire": timeout}
        ex = Exec(cfg, tag=tag, prop="C07")
        ops = []
        if ex.res.infra:
            ex.finish()
            return None
        g = Gen(rnd, cfg, o)
        g.ids = [cid]
        g.w_adv = 0
        ex.apply({"op": "adv", "ns": tick_ns(0)})
        expired = False
        ended_at = None
        bar = None
        bar_target = 0 if bar_first else rnd.choice([1, 2, 3, 4, 6, 9, 14, 99])

        def do_barrier():
            ok = ex.apply(barrier)
            last = barrier
            for nxt in barrier.get("then", []):
                ok = ok and ex.apply(nxt)
                last = nxt
                g.svc_ever |= set(nxt["services"])
            g.svc_now = dict(last["services"])
            g.rules_now = json.loads(json.dumps(last.get("rules", {})))
            g.svc_ever |= set(barrier["services"])
            return ok
        while True:
            if barrier is not None and bar is None and len(ops) >= bar_target:
                bar = len(ops)
                if not do_barrier():
                    break
            if timeout and not expired and ops and rnd.random() < 0.12:
                op = {"op": "expire", "cid": cid}
                expired = True
            else:
                op = g.next(ex.w)
                if op is None:
                    break
                if op["op"] in ("stats", "config", "noise", "audit", "wall", "reload", "adv"):
                    continue
                if op["op"] == "announce" and ops:
                    break       # one announce per conversation
            ops.append(op)
            if not apply_conv_op(ex, op):
                break
            if ended_at is None and ops[0]["op"] == "announce" and ex.w.live.get(cid) is None:
                ended_at = len(ops) - 1
        me = next((i for i in ex.w.all if i.cid == cid), None)
        if ended_at is not None and me is not None and me.tag and me.qstep and rnd.random() < 0.6 and not ex.h.dead:
            # replies that arrive after this client is gone (in a merged schedule: possibly while a successor
            # holds the same id): addressed to this instance, so they must not touch anybody
            for _ in range(rnd.choice([1, 1, 2])):
                op = {"op": "xreply", "cid": cid, "inst": "prev", "svc": rnd.choice(sorted(me.qstep)),
                      "kind": rnd.choice(["X", "X", "X", "x"]),
                      "text": rnd.choice(["OK", "OK late:1", "NO too late", "MORE late riddle", "AGAIN late again", "Not linked"]), "late": True}
                ops.append(op)
                if not apply_conv_op(ex, op):
                    break
        if barrier is not None and bar is None and not ex.h.dead:
            bar = len(ops)
            do_barrier()
        if timeout and not expired:
            ops.append({"op": "expire", "cid": cid})
        res = ex.finish()
        if res.viol or not ops or ops[0]["op"] != "announce":
            return None
        if ended_at is not None:
            # a successor may take the id over only after the server's last line about this client (lines that
            # crossed the verdict included): one server link carries them in order; service replies may lag
            ended_at = max([ended_at] + [n for n, o in enumerate(ops) if o["op"] == "cli"])
        self.last_ended_at = ended_at
        self.last_bar = bar
        return ops

    def gen_run(self, rnd, opts, tier, tag):
        cfg = gen_cfg(rnd, {"modules": rnd.choice(["xquery", "class", "class"]), "min_svc": rnd.choice([0, 1, 1, 2]), "p_logs": 0.1})
        timeout = rnd.random() < 0.5
        cfg["timeout"] = self.T if timeout else 0
        cfg.pop("timeout_text", None)       # (this profile sets the timeout itself)
        barrier = None
        if not timeout and cfg["services"] and not cfg.get("wide_table") and rnd.random() < 0.35:
            # (not with more entries than table slots: which of them are served after a reload depends on which
            # slots happen to be free, which the over-capacity error in the log is there to announce)
            # one reload of the service/rule tables, which every conversation sees after a fixed number of its
            # own events, in every schedule and in its solo run alike
            barrier = self.gen_barrier(rnd, cfg)
        k = rnd.randint(2, 6)
        cids = rnd.sample(range(1, 60), k)
        if rnd.random() < 0.25:
            # large ids (long routing tags), possibly after thousands of earlier announcements
            pool = list(range(256, 300)) + list(range(4096, 4140)) + [65536, 1 << 20, (1 << 24) + 5, 2147483647, 2147483646, -2, -2147483648]
            cids = rnd.sample(pool, k)
        convs = []
        ended = []
        bars = []
        for j in range(k):
            c = self.gen_conv(rnd, cfg, cids[j], tag + "S", timeout, barrier)
            if c:
                convs.append(c)
                ended.append(self.last_ended_at)
                bars.append(self.last_bar)
        # id reuse: a conversation may take over the id of one that has ended (its announce comes after the
        # predecessor's last own event; the predecessor's late replies and expiry may still follow)
        after = {}
        for j in range(len(convs)):
            if ended[j] is not None and rnd.random() < 0.45 and len(convs) < 8 and j not in after.values():
                c = self.gen_conv(rnd, cfg, convs[j][0]["cid"], tag + "S", timeout, barrier, bar_first=True)
                if c:
                    convs.append(c)
                    ended.append(self.last_ended_at)
                    bars.append(self.last_bar)
                    after[str(len(convs) - 1)] = j
        if len(convs) < 2:
            r = proto.Result()
            r.hash = "skip"
            r.nontrivial = False
            return {"profile": "interleave", "cfg": cfg, "convs": convs, "orders": []}, r
        if barrier is None:
            bars = None
        orders = [self.merge(rnd, convs, after, ended, bars), self.merge(rnd, convs, after, ended, bars)]
        if tier == "thorough" or after or barrier or rnd.random() < 0.3:
            orders.append("solo")
        plan = {"profile": "interleave", "cfg": cfg, "convs": convs, "orders": orders, "after": after, "ended": ended,
                "barrier": barrier, "bars": bars,
                # in schedule 0 every client event may arrive inside a backlog of other clients' traffic
                "padded": [rnd.choice([0, 20, 60, 90, 100, 120, 200]) for _ in range(7)] if rnd.random() < 0.3 else None,
                "stalled": rnd.random() < 0.35,     # (with "padded": the backlog is requests for reports and the peer reads slowly)
                # schedule 0 may be preceded by hundreds or thousands of unrelated short-lived clients
                "prelude": rnd.choice([0, 0, 0, 0, 0, 0, 300, 300, 4200]) if tier == "quick" else rnd.choice([0, 0, 0, 300, 4200, 70000])}
        return plan, self.run(plan, tag)

    def gen_barrier(self, rnd, cfg):
        svcs = dict(cfg["services"])
        rules = json.loads(json.dumps(cfg.get("rules", {})))
        names = sorted(svcs)
        k = rnd.random()
        if k < 0.55:
            del svcs[rnd.choice(names)]                     # a service the clients may be waiting for goes away
            if rnd.random() < 0.4:
                svcs[rnd.choice([n for n in proto.SVC_POOL if n not in cfg["services"]])] = rnd.choice(proto.SVC_TYPES)
        elif k < 0.75:
            svcs[rnd.choice([n for n in proto.SVC_POOL if n not in svcs])] = rnd.choice(proto.SVC_TYPES)
        elif k < 0.9:
            svcs[rnd.choice(names)] = rnd.choice(list(proto.SVC_TYPES) + ["proxycheck"])
        else:
            svcs = {}
        if rules and rnd.random() < 0.3:
            del rules[rnd.choice(sorted(rules))]
        bar = {"op": "reload", "how": "tables", "services": svcs, "rules": rules, "omit": []}
        if rnd.random() < 0.3 and svcs != cfg["services"]:
            # the operator undoes the edit (or part of it) with the very next reload: a service that went comes
            # back, possibly with another protocol, before any client has had another event
            back = dict(cfg["services"])
            if rnd.random() < 0.3:
                back.update(svcs)
            if rnd.random() < 0.2 and back:
                back[rnd.choice(sorted(back))] = rnd.choice(proto.SVC_TYPES)
            bar["then"] = [{"op": "reload", "how": "tables", "services": back,
                            "rules": json.loads(json.dumps(cfg.get("rules", {}))) if rnd.random() < 0.5 else rules, "omit": []}]
        return bar

    def merge(self, rnd, convs, after=None, ended=None, bars=None):
        """Random interleaving preserving each conversation's order, with
        expiries in announce order (one global clock)."""
        pos = [0] * len(convs)
        announced = []
        expired = set()
        order = []
        fired = bars is None
        while True:
            if not fired and all(pos[k] == bars[k] for k in range(len(convs))):
                order.append(-1)        # the reload: every conversation has had exactly its share of events
                fired = True
                continue
            enabled = []
            for k, c in enumerate(convs):
                if pos[k] >= len(c):
                    continue
                if not fired and pos[k] >= bars[k]:
                    continue            # waits for the reload
                op = c[pos[k]]
                if op["op"] == "expire":
                    earlier = announced[:announced.index(k)] if k in announced else []
                    if any(e not in expired for e in earlier):
                        continue
                if pos[k] == 0 and after and str(k) in after:
                    j = after[str(k)]
                    if ended[j] is None or pos[j] <= ended[j]:
                        continue        # the predecessor on this id has not finished yet
                enabled.append(k)
            if not enabled:
                break
            # bursts: stay with the same conversation sometimes
            k = order[-1] if order and order[-1] in enabled and rnd.random() < 0.3 else rnd.choice(enabled)
            op = convs[k][pos[k]]
            if op["op"] == "announce":
                announced.append(k)
            if op["op"] == "expire":
                expired.add(k)
            pos[k] += 1
            order.append(k)
        return order

    def run_order(self, cfg, convs, order, tag, prelude=0, barrier=None, padded=None, stalled=False):
        """-> (per-conversation projection, result)"""
        # stalled: the server channel is one socket (stdin and stdout of the daemon are the same description) whose
        # peer is slow to read while the backlog of each padded step is being answered
        ex = Exec(cfg, tag=tag, prop="C07", env={"VERIF_SOCKPAIR": "1"} if stalled else None)
        proj = [[] for _ in convs]
        if ex.res.infra:
            return proj, ex.finish()
        if prelude:
            # other clients' traffic before anybody of interest arrives: `prelude` short-lived clients on an id
            # nobody else uses come and go (instance serials, allocation counters and the like move on)
            pid = 7777
            out = []
            try:
                for base in range(0, prelude, 200):
                    n = min(200, prelude - base)
                    out += ex.h.feed(("".join("%d C 10.9.%d.%d 1000 0::1 6667\n%d D\n" % (pid, (base + j) // 250 % 250, (base + j) % 250 + 1, pid)
                                              for j in range(n))).encode()).lines()
            except (H.HostDied, H.HostHang):
                ex.died = "HostDied"
                return proj, ex.finish()
            ex.res.steps += 2 * prelude
            if [l for l in out if not l.startswith(">")]:
                ex.w.v("C07", "foreign-output", "clients that only came and went produced output: %r" % out[:3])
        pos = [0] * len(convs)
        nann = 0
        inst_of = {}
        for k in order:
            if k == -1:
                before = len(ex.res.outputs)
                ok = ex.apply(barrier)
                for nxt in barrier.get("then", []):
                    ok = ok and ex.apply(nxt)       # further edits follow at once: no client event in between
                lines = []
                for o in ex.res.outputs[before:]:
                    lines += (o or [])
                for j in range(len(convs)):
                    inst = inst_of.get(j)
                    mine = []
                    for ln in lines:
                        f = ln.split(" ")
                        if f[0] == "X" and len(f) > 2 and inst is not None and inst.tag == f[2]:
                            f[2] = "TAG"
                            mine.append(" ".join(f))
                        elif len(f) > 1 and f[0][0] in "oUuNIMCkKdDR" and inst is not None and inst.ended is None and f[1] == str(inst.cid):
                            mine.append(ln)
                    proj[j].append(("reload", sorted(mine)))
                if not ok:
                    break
                continue
            op = convs[k][pos[k]]
            pos[k] += 1
            if op["op"] == "announce":
                if not ex.apply({"op": "adv", "ns": tick_ns(nann)}):
                    break
                nann += 1
            before = len(ex.res.outputs)
            me = inst_of.get(k)
            if op["op"] == "xreply" and not op.get("inst", "cur").startswith("forged"):
                # a reply belongs to this conversation's own instance, never to whoever holds the id now
                which = op.get("inst", "cur")
                if which == "cur" and (me is None or me.ended is not None):
                    op = dict(op, inst="nobody")
                elif which != "cur":
                    op = dict(op, inst=("tag:" + me.tag) if (me is not None and me.ended is not None and me.tag) else "nobody")
            if padded and op["op"] in ("announce", "cli") and not op.get("seg"):
                op = dict(op, pad=[padded[(len(ex.res.outputs) * 2) % len(padded)], padded[(len(ex.res.outputs) * 2 + 1) % len(padded)]])
                if stalled:
                    op["padkind"] = "stats"
            ok = apply_conv_op(ex, op, me)
            if op["op"] == "announce" and ex.w.all and ex.w.all[-1].cid == op["cid"]:
                inst_of[k] = ex.w.all[-1]
            lines = []
            for o in ex.res.outputs[before:]:
                lines += (o or [])
            cid = convs[k][0]["cid"]
            inst = inst_of.get(k)
            tagk = inst.tag if inst else None
            norm = []
            for ln in lines:
                f = ln.split(" ")
                if f[0] == "X" and len(f) > 2:
                    if tagk is not None and f[2] == tagk:
                        f[2] = "TAG"
                    else:
                        f[2] = "FOREIGN:" + f[2]
                    norm.append(" ".join(f))
                elif f[0] in ("S", "s", "a", "A", ">"):
                    continue
                elif len(f) > 1 and f[0][0] in "oUuNIMCkKdDR" and f[1] != str(cid):
                    norm.append("FOREIGN:" + ln)
                else:
                    norm.append(ln)
            proj[k].append((op["op"] + ":" + str(op.get("ev", op.get("text", ""))[:20]), sorted(norm)))
            if not ok:
                break
        return proj, ex.finish()

    def run(self, plan, tag):
        convs, cfg = plan["convs"], plan["cfg"]
        results = []
        projs = []
        if not plan.get("orders"):
            r = proto.Result()      # fewer than two conversations came about: nothing to compare (as in gen_run)
            r.hash = "skip"
            r.nontrivial = False
            return r
        for n, order in enumerate(plan["orders"]):
            if order == "solo":
                pj = []
                rs = None
                for k, c in enumerate(convs):
                    so = [0] * len(c)
                    if plan.get("barrier"):
                        b = plan["bars"][k]
                        so = [0] * b + [-1] + [0] * (len(c) - b)
                    p1, r1 = self.run_order(cfg, [c], so, tag + "o%d" % k, barrier=plan.get("barrier"))
                    pj.append(p1[0])
                    rs = r1 if rs is None else merge_res(rs, r1)
                projs.append(pj)
                results.append(rs)
            else:
                pj, rs = self.run_order(cfg, convs, order, tag + "m%d" % n, prelude=plan.get("prelude", 0) if n == 0 else 0,
                                        barrier=plan.get("barrier"), padded=plan.get("padded") if n == 0 else None,
                                        stalled=bool(plan.get("stalled")) and n == 0)
                projs.append(pj)
                results.append(rs)
        res = results[0] if results else proto.Result()
        for r in results[1:]:
            res = merge_res(res, r)
        res.transcripts = [r.transcript for r in results]
        viol = []
        for n in range(1, len(projs)):
            for k in range(len(convs)):
                a, b = projs[0][k], projs[n][k]
                if any(ln.startswith("FOREIGN") or " FOREIGN:" in ln for (_, ls) in b for ln in ls) or \
                   any(ln.startswith("FOREIGN") or " FOREIGN:" in ln for (_, ls) in a for ln in ls):
                    viol.append(Violation("C07", "foreign-output", "a step of client %d's own events produced output about another client: %r" %
                                          (convs[k][0]["cid"], [ls for (_, ls) in a + b if any("FOREIGN" in l for l in ls)][:1])))
                    break
                if a != b:
                    j = next((j for j in range(min(len(a), len(b))) if a[j] != b[j]), min(len(a), len(b)))
                    viol.append(Violation("C07", "projection-differs",
                                          "client %d: conversation differs between schedule 0 and schedule %s at its event %d: %r vs %r" %
                                          (convs[k][0]["cid"], plan["orders"][n] if plan["orders"][n] == "solo" else n, j,
                                           a[j] if j < len(a) else None, b[j] if j < len(b) else None)))
                    break
            if viol:
                break
        res.viol = viol + [v for v in res.viol if "C07" not in v.props]
        res.nontrivial = len(convs) >= 2 and sum(res.verdicts.values()) > 0 and len(plan["orders"]) >= 2 and plan["orders"][0] != plan["orders"][1]
        res.extra = dict(getattr(res, "extra", {}))
        res.extra["conversations"] = len(convs)
        res.extra["schedules"] = len(plan["orders"])
        res.extra["with_timeouts"] = int(bool(cfg.get("timeout")))
        res.extra["conversations_taking_over_an_id"] = len(plan.get("after") or {})
        res.extra["schedules_with_client_lines_inside_a_backlog"] = int(bool(plan.get("padded")))
        res.extra["schedules_on_one_socket_with_a_slow_peer"] = int(bool(plan.get("padded")) and bool(plan.get("stalled")))
        res.extra["evaluations_with_a_table_reload_at_fixed_per_client_positions"] = int(bool(plan.get("barrier")))
        res.extra["schedules_after_a_crowd_of_earlier_clients"] = int(bool(plan.get("prelude")))
        res.extra["late_replies_for_departed_clients"] = sum(1 for c in convs for op in c if op.get("late"))
        return res

    def transcript(self, res):
        out = []
        for n, t in enumerate(getattr(res, "transcripts", [res.transcript])):
            class R:
                pass
            r = R()
            r.transcript = t
            r.exit = None
            out += ["===== schedule %d =====" % n] + fmt_transcript(r)
        return out

    def shrink(self, plan, pred, budget):
        cur = copy.deepcopy(plan)
        if cur.get("padded") and budget[0] > 0:
            c = dict(cur, padded=None)
            budget[0] -= 1
            if pred(c):
                cur = c
        for smaller in (0, 300):
            if cur.get("prelude", 0) > smaller and budget[0] > 0:
                c = dict(cur, prelude=smaller)
                budget[0] -= 1
                if pred(c):
                    cur = c
                    break
        # drop whole conversations (orders must be re-indexed)
        k = 0
        while k < len(cur["convs"]) and len(cur["convs"]) > 1 and budget[0] > 0:
            c = copy.deepcopy(cur)
            del c["convs"][k]
            c["orders"] = [o if o == "solo" else [x - (x > k) for x in o if x != k] for o in c["orders"]]
            if c.get("ended"):
                del c["ended"][k]
            if c.get("bars"):
                del c["bars"][k]
            if c.get("after"):
                c["after"] = {str(int(a) - (int(a) > k)): (b - (b > k)) for a, b in c["after"].items() if int(a) != k and b != k}
            budget[0] -= 1
            if pred(c):
                cur = c
            else:
                k += 1
        # drop single ops inside conversations (never the announce)
        for k in range(len(cur["convs"])):
            j = 1
            while j < len(cur["convs"][k]) and budget[0] > 0:
                c = copy.deepcopy(cur)
                del c["convs"][k][j]
                if c.get("ended") and c["ended"][k] is not None:
                    if j == c["ended"][k]:
                        # the event that ended this client: without it a conversation that takes over the id
                        # would no longer be a successor but a re-announcement; keep the plan what it was
                        if k in (c.get("after") or {}).values():
                            j += 1
                            continue
                        c["ended"][k] = None
                    elif j < c["ended"][k]:
                        c["ended"][k] -= 1
                if c.get("bars") and j < c["bars"][k]:
                    c["bars"][k] -= 1
                neworders = []
                for o in c["orders"]:
                    if o == "solo":
                        neworders.append(o)
                        continue
                    seen = 0
                    no = []
                    for x in o:
                        if x == k:
                            if seen == j:
                                seen += 1
                                continue
                            seen += 1
                        no.append(x)
                    neworders.append(no)
                c["orders"] = neworders
                budget[0] -= 1
                if pred(c):
                    cur = c
                else:
                    j += 1
        return cur


def apply_conv_op(ex, op, inst=None):
    if op["op"] == "expire":
        cid = op["cid"]
        inst = inst or next((i for i in reversed(ex.w.all) if i.cid == cid), None)
        if inst is None or inst.deadline is None:
            ex.res.outputs.append([])
            return True
        ns = inst.deadline - ex.w.now
        if ns <= 0:
            ex.res.outputs.append([])
            return True
        return ex.apply({"op": "adv", "ns": ns})
    return ex.apply(op)


def merge_res(a, b):
    a.steps += b.steps
    a.sim_ns += b.sim_ns
    a.viol = a.viol + b.viol
    a.hash = H.hashlib.sha256(((a.hash or "") + (b.hash or "")).encode()).hexdigest()
    for k, v in (b.stats or {}).items():
        a.stats[k] = a.stats.get(k, 0) + v
    for k, v in (b.verdicts or {}).items():
        a.verdicts[k] = a.verdicts.get(k, 0) + v
    a.states = set(a.states) | set(b.states)
    a.transitions = set(a.transitions) | set(b.transitions)
    a.ubsan = (a.ubsan or []) + (b.ubsan or [])
    ea, eb = getattr(a, "extra", {}) or {}, getattr(b, "extra", {}) or {}
    a.extra = {k: (ea.get(k, 0) + eb.get(k, 0)) for k in set(ea) | set(eb)
               if isinstance(ea.get(k, 0), int) and isinstance(eb.get(k, 0), int)}
    return a


runner.register(InterleaveProfile())
