"""Batch search, violation pipeline (gate -> minimise -> replay file -> known
findings) and evidence writer shared by all profiles."""
import os, sys, json, time, random, hashlib, multiprocessing as mp, traceback, re, collections

VERIF = "/verif"
FINDINGS = os.environ.get("VERIF_FINDINGS_DIR", os.path.join(VERIF, "findings"))
EVIDENCE = os.environ.get("VERIF_EVIDENCE_DIR", os.path.join(VERIF, "evidence"))
KNOWN = os.path.join(VERIF, "known_findings.json")

_PROFILES = {}


def register(p):
    _PROFILES[p.name] = p


def profile(name):
    return _PROFILES[name]


# ------------------------------------------------------------------ workers

def _summ(plan, res, want_plan):
    vi = [v.to_json() for v in res.viol]
    out = {
        "hash": res.hash, "viol": vi, "steps": res.steps, "sim_ns": res.sim_ns,
        "stats": res.stats, "fired": getattr(res, "fired", {}), "nontrivial": bool(res.nontrivial),
        "verdicts": getattr(res, "verdicts", {}), "ubsan": collections.Counter(
            re.sub(r"[-\d]+", "N", u)[:60] for u in (res.ubsan or [])), "infra": res.infra,
        "nstates": None, "extra": getattr(res, "extra", {}),
    }
    out["states"] = list(getattr(res, "states", ()) or ())
    out["transitions"] = list(getattr(res, "transitions", ()) or ())
    if vi or want_plan:
        out["plan"] = plan
    return out


def _work(task):
    pname, prop, seed, idx, tier, opts, recheck = task
    p = profile(pname)
    try:
        rnd = random.Random("%s/%s/%s/%d" % (seed, pname, prop, idx))
        plan, res = p.gen_run(rnd, dict(opts), tier, "w%d" % os.getpid())
        out = _summ(plan, res, idx < 3)
        out["idx"] = idx
        if recheck and not res.viol and not res.infra:
            res2 = p.run(plan, "w%dr" % os.getpid())
            out["recheck"] = (res2.hash == res.hash and not res2.viol)
            if not out["recheck"]:
                out["plan"] = plan
                if os.environ.get("VERIF_DEBUG_NONDET"):
                    with open(os.environ["VERIF_DEBUG_NONDET"] + ".%d" % idx, "w") as f:
                        f.write("\n".join(p.transcript(res)) + "\n=====REPLAY=====\n" + "\n".join(p.transcript(res2)) +
                                "\n%s %s %r\n" % (res.hash, res2.hash, res2.viol))
        return out
    except Exception:
        return {"idx": idx, "crash": traceback.format_exc(), "viol": [], "hash": None, "infra": "controller exception"}


def vkey(v):
    return (v["props"][0], v["rule"])


def has_key(res, prop, rule):
    return any(prop in v.props and v.rule == rule for v in res.viol)


# ----------------------------------------------------------------- shrinking

def ddmin(items, test, budget):
    """Classic delta debugging on a list; `test(sublist)` -> True if the
    violation persists.  Returns a 1-minimal-ish sublist within budget."""
    n = 2
    cur = list(items)
    while len(cur) >= 2 and budget[0] > 0:
        chunk = max(1, len(cur) // n)
        reduced = False
        for start in range(0, len(cur), chunk):
            cand = cur[:start] + cur[start + chunk:]
            if not cand:
                continue
            budget[0] -= 1
            if test(cand):
                cur = cand
                n = max(n - 1, 2)
                reduced = True
                break
            if budget[0] <= 0:
                break
        if not reduced:
            if chunk == 1:
                break
            n = min(n * 2, len(cur))
    return cur


# ------------------------------------------------------------- known findings

def load_known():
    try:
        with open(KNOWN) as f:
            return json.load(f)
    except FileNotFoundError:
        return {"findings": []}


def match_known(entry, prop, rule, detail, plan):
    if entry.get("status") != "known":
        return False
    if entry["property"] != prop or entry["rule"] != rule:
        return False
    if "detail_re" in entry and not re.search(entry["detail_re"], detail, re.S):
        return False
    blob = json.dumps(plan, sort_keys=True)
    for need in entry.get("plan_contains", []):
        if need not in blob:
            return False
    return True


# --------------------------------------------------------------------- check

def run_check(prop, spec, tier, seed, jobs=None):
    """spec: {"profile","opts","quick_runs","thorough_runs","quick_s","thorough_s","rule","assumptions"}"""
    t0 = time.time()
    p = profile(spec["profile"])
    jobs = jobs or int(os.environ.get("VERIF_JOBS", "0")) or min(16, os.cpu_count() or 4)
    nruns = int(os.environ.get("VERIF_RUNS", "0")) or spec["%s_runs" % tier]
    cap = float(os.environ.get("VERIF_WALL", "0")) or spec.get("%s_s" % tier, 60 if tier == "quick" else 900)
    opts = dict(spec.get("opts", {}))
    opts["prop"] = prop
    recheck_every = spec.get("recheck_every", 100)
    tasks = ((spec["profile"], prop, seed, i, tier, opts, (i % recheck_every) == 1) for i in range(nruns))
    agg = {"runs": 0, "steps": 0, "sim_ns": 0, "hashes": set(), "nt_hashes": set(), "stats": collections.Counter(),
           "fired": collections.Counter(), "verdicts": collections.Counter(), "ubsan": collections.Counter(),
           "states": set(), "transitions": set(), "rechecks": 0, "recheck_fail": 0, "infra": [], "others": collections.Counter(),
           "samples": [], "extra": collections.Counter()}
    mine = collections.OrderedDict()     # key -> list of (size, plan, detail)
    nondet = []
    ctx = mp.get_context("fork")
    with ctx.Pool(jobs) as pool:
        wpids = [w.pid for w in getattr(pool, "_pool", [])]
        it = pool.imap_unordered(_work, tasks, chunksize=4)
        for out in it:
            agg["runs"] += 1
            if out.get("crash"):
                agg["infra"].append(out["crash"][-800:])
                continue
            if out.get("infra"):
                agg["infra"].append(str(out["infra"]))
            agg["steps"] += out["steps"]
            agg["sim_ns"] += out["sim_ns"]
            if out["hash"]:
                agg["hashes"].add(out["hash"])
                if out["nontrivial"]:
                    agg["nt_hashes"].add(out["hash"])
            agg["stats"].update(out["stats"])
            agg["fired"].update(out["fired"])
            agg["verdicts"].update(out["verdicts"])
            agg["ubsan"].update(out["ubsan"])
            agg["extra"].update({k: v for k, v in out.get("extra", {}).items() if isinstance(v, int)})
            agg["states"].update(map(repr, out["states"]))
            agg["transitions"].update(map(repr, out["transitions"]))
            if "recheck" in out:
                agg["rechecks"] += 1
                if not out["recheck"]:
                    agg["recheck_fail"] += 1
                    nondet.append(out.get("plan"))
            if "plan" in out and len(agg["samples"]) < 3 and not out["viol"]:
                agg["samples"].append(out["plan"])
            for v in out["viol"]:
                if prop in v["props"]:
                    k = (prop, v["rule"])
                    mine.setdefault(k, []).append((out["steps"], out["plan"], v["detail"]))
                    break
            else:
                for v in out["viol"][:1]:
                    agg["others"]["%s/%s" % vkey(v)] += 1
            if time.time() - t0 > cap:
                pool.terminate()
                break
            # every hang costs seconds of wall time: a handful of them decides the check, the rest adds nothing
            if sum(len(l) for (pp, rl), l in mine.items() if rl.startswith("hang")) >= 6:
                agg["extra"]["stopped_early_on_hangs"] = 1
                pool.terminate()
                break
    wall_search = time.time() - t0
    # scratch directories of workers that were terminated in the middle of a run
    import glob, shutil
    for wp in wpids:
        for d in glob.glob("/dev/shm/verif.%d.*" % wp):
            shutil.rmtree(d, ignore_errors=True)
    # ------------------------------------------------ violation pipeline
    known = load_known()
    reports = []
    exit_code = 0
    os.makedirs(FINDINGS, exist_ok=True)
    nfile = 0
    # instances of one (property, rule) class that a listed known finding describes are handled apart from the
    # others, so that a different violation of the same class is still reported
    split = collections.OrderedDict()
    for (pp, rule), lst in mine.items():
        kn = [t for t in lst if any(match_known(e, pp, rule, t[2], t[1]) for e in known.get("findings", []))]
        ot = [t for t in lst if t not in kn]
        if kn:
            split[(pp, rule, "known")] = kn
        if ot:
            split[(pp, rule, "other")] = ot
    for (pp, rule, _grp), lst in split.items():
        lst.sort(key=lambda t: t[0])
        handled = False
        for (size, plan, detail) in lst[:3]:
            r = pipeline(p, prop, rule, plan, detail, seed, known, nfile)
            nfile += 1
            if r["status"] == "nonrepro":
                continue
            reports.append(r)
            handled = True
            if r["status"] == "violation":
                exit_code = 1
            break
        if not handled:
            reports.append({"status": "infra", "rule": rule, "msg": "violation %s/%s did not reproduce in a fresh process" % (prop, rule)})
            exit_code = max(exit_code, 2)
    if agg["recheck_fail"]:
        exit_code = max(exit_code, 2)
    for r in reports:
        if r["status"] == "violation":
            print("VIOLATION property=%s replay=%s" % (prop, r["replay"]))
            print("  rule=%s %s" % (r["rule"], r["detail"][:300]))
        elif r["status"] == "known":
            print("KNOWN-FINDING: property=%s %s" % (prop, r["what"]))
        else:
            print("INFRA: %s" % r.get("msg"))
    if agg["infra"]:
        print("INFRA: %d runs had infrastructure problems, e.g. %s" % (len(agg["infra"]), agg["infra"][0][:300]))
        if len(agg["infra"]) > max(2, agg["runs"] // 50):
            exit_code = max(exit_code, 2)
    if agg["recheck_fail"]:
        print("INFRA: %d of %d determinism re-checks differed" % (agg["recheck_fail"], agg["rechecks"]))
    wall = time.time() - t0
    ev = evidence(prop, spec, tier, seed, agg, reports, wall, wall_search, jobs)
    os.makedirs(EVIDENCE, exist_ok=True)
    with open(os.path.join(EVIDENCE, "%s.json" % prop), "w") as f:
        json.dump(ev, f, indent=1, sort_keys=True, default=str)
    print("%s %s: %d runs, %d steps, %d distinct non-trivial histories, %.1fs; %d violation class(es) of this property, others=%s" %
          (prop, tier, agg["runs"], agg["steps"], len(agg["nt_hashes"]), wall, len(mine), dict(agg["others"])))
    return exit_code


def pipeline(p, prop, rule, plan, detail, seed, known, nfile):
    """gate -> minimise -> replay file -> fresh-process verification"""
    tg = time.time()
    r1 = p.run(plan, "g1")
    tg = time.time() - tg
    r2 = p.run(plan, "g2")
    if not (has_key(r1, prop, rule) and has_key(r2, prop, rule) and r1.hash == r2.hash):
        return {"status": "nonrepro", "rule": rule}
    budget = [int(os.environ.get("VERIF_SHRINK", "300"))]
    t_end = time.time() + float(os.environ.get("VERIF_SHRINK_WALL", "120"))
    if tg > 3:
        budget[0] = min(budget[0], 12)      # a run that takes seconds (a hang) is reported nearly as found

    def pred(cand):
        if time.time() > t_end:
            budget[0] = 0
            return False
        try:
            return has_key(p.run(cand, "s"), prop, rule)
        except Exception:
            return False
    small = p.shrink(plan, pred, budget)
    rs = p.run(small, "v1")
    if not has_key(rs, prop, rule):
        small, rs = plan, r1
    det = next(v.detail for v in rs.viol if prop in v.props and v.rule == rule)
    h = hashlib.sha256(json.dumps(small, sort_keys=True).encode()).hexdigest()[:10]
    path = os.path.join(FINDINGS, "%s-%s-%s.json" % (prop, rule, h))
    doc = {"property": prop, "rule": rule, "profile": p.name, "seed": seed, "plan": small, "detail": det,
           "expect_hash": rs.hash, "transcript": p.transcript(rs), "shrink_runs": int(os.environ.get("VERIF_SHRINK", "300")) - budget[0],
           "original_steps": len(plan.get("ops", [])) if isinstance(plan, dict) else None}
    for e in known.get("findings", []):
        if match_known(e, prop, rule, det, small):
            return {"status": "known", "rule": rule, "what": e["what"], "detail": det, "id": e.get("id")}
    with open(path, "w") as f:
        json.dump(doc, f, indent=1, default=str)
    # fresh-process replay must reproduce exactly
    import subprocess
    cp = subprocess.run([sys.executable, os.path.join(VERIF, "sim", "simctl.py"), "replay", path, "--quiet"],
                        capture_output=True, text=True)
    if cp.returncode != 1:
        return {"status": "infra", "rule": rule, "msg": "replay of %s did not reproduce (rc=%d): %s" % (path, cp.returncode, cp.stdout[-300:] + cp.stderr[-300:])}
    return {"status": "violation", "rule": rule, "replay": path, "detail": det}


def evidence(prop, spec, tier, seed, agg, reports, wall, wall_search, jobs):
    runs = max(agg["runs"], 1)
    cov = {
        "evaluations": agg["runs"],
        "distinct_nontrivial": len(agg["nt_hashes"]),
        "rule": spec["rule"],
        "samples": [abbreviate(s) for s in agg["samples"][:3]] or ["(no violation-free sample retained)"],
        "distinct_histories": len(agg["hashes"]),
        "steps": agg["steps"],
        "simulated_seconds": agg["sim_ns"] / 1e9,
        "runs_per_hour": int(agg["runs"] / max(wall_search, 1e-6) * 3600),
        "workers": jobs,
        "fault_kinds_fired": dict(sorted(agg["fired"].items())),
        "probes": dict(sorted(agg["stats"].items())),
        "probes_at_zero": sorted(k for k in spec.get("expect_probes", []) if not agg["stats"].get(k) and not agg["fired"].get(k)),
        "abstract_states": len(agg["states"]),
        "abstract_transitions": len(agg["transitions"]),
        "verdict_mix": dict(agg["verdicts"]),
        "determinism_rechecks": agg["rechecks"],
        "determinism_recheck_failures": agg["recheck_fail"],
        "ubsan_reports_by_kind": dict(agg["ubsan"]),
        "other_monitors": dict(agg["others"]),
        "extra_counters": dict(agg["extra"]),
        "infra_problems": len(agg["infra"]),
        "components": {
            "real": ["src/*.c incl. main.c (argument parsing, start-up order, exit path)", "modules/*.c loaded via dlopen",
                     "libevent 2.1 event loop, timers, signals, evbuffer", "libc stdio"],
            "simulated": ["CLOCK_MONOTONIC/REALTIME, gettimeofday, time", "producer side of stdin (read boundaries, EINTR/EAGAIN, EOF)",
                          "signal timing (SIGUSR1/SIGHUP)", "config/log/module files at each instant", "fread failure"],
            "modelled": ["IRC server", "authorization services", "operator"],
        },
        "findings": [{k: v for k, v in r.items() if k in ("status", "rule", "replay", "what", "detail", "msg")} for r in reports],
    }
    return {
        "property_id": prop, "tier": tier, "seed": int(seed), "level": "exploration", "coverage": cov,
        "assumptions": spec.get("assumptions", []), "wall_s": round(wall, 2),
        "violations": sum(1 for r in reports if r["status"] == "violation"),
    }


def abbreviate(plan, maxops=40):
    try:
        p = json.loads(json.dumps(plan, default=str))
    except Exception:
        return str(plan)[:2000]
    if isinstance(p, dict) and isinstance(p.get("ops"), list) and len(p["ops"]) > maxops:
        n = len(p["ops"])
        p["ops"] = p["ops"][:maxops] + ["... %d more ops" % (n - maxops)]
    s = json.dumps(p)
    if len(s) > 6000:
        return s[:6000] + "...(truncated)"
    return p


def hashes(prop, spec, seed, n, jobs, tier="quick"):
    """Determinism proof helper: history hash of runs 0..n-1 (one line each)."""
    opts = dict(spec.get("opts", {}))
    opts["prop"] = prop
    tasks = [(spec["profile"], prop, seed, i, tier, opts, False) for i in range(n)]
    ctx = mp.get_context("fork")
    res = {}
    with ctx.Pool(jobs) as pool:
        for out in pool.imap_unordered(_work, tasks, chunksize=2):
            res[out["idx"]] = "%s %s" % (out.get("hash"), ",".join("%s/%s" % vkey(v) for v in out["viol"]) or "-")
    return [res[i] for i in range(n)]
