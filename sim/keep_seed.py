#!/usr/bin/env python3
"""keep_seed.py <ID> <seedname> <property> '<needs>' : copy a confirmed seeded change from /tmp/wt_<ID>/DELIVER into /verif/seeded/<seedname>/"""
import sys, os, shutil, json, subprocess
wt, name, prop, needs = sys.argv[1], sys.argv[2], sys.argv[3], sys.argv[4]
src = os.path.join(wt, "DELIVER")
dst = os.path.join("/verif/seeded", name)
shutil.rmtree(dst, ignore_errors=True)
os.makedirs(dst)
for f in os.listdir(src):
    if os.path.isfile(os.path.join(src, f)):
        shutil.copy(os.path.join(src, f), dst)
# the delivered patch must apply to /repo's HEAD (git stash is shared between worktrees, so never trust the worktree state)
d = open(os.path.join(dst, "patch.diff")).read()
chk = subprocess.run(["git", "-C", "/repo", "apply", "--check", os.path.join(dst, "patch.diff")], capture_output=True, text=True)
if chk.returncode != 0:
    print("PATCH DOES NOT APPLY to /repo:", chk.stderr[:300]); sys.exit(1)
meta = {"property": prop, "needs_to_manifest": needs, "origin": "independent sub-agent given only the property text and a scratch worktree",
        "confirmed": "sim/verify_seed.sh %s python3 DELIVER/demo.py: builds, make check 89/89 with the change, demo exits non-zero with the change and 0 without" % wt,
        "demo_cmd": "cd <worktree> && python3 DELIVER/demo.py", "checks_run": []}
json.dump(meta, open(os.path.join(dst, "meta.json"), "w"), indent=1)
print("kept", dst, len(d.splitlines()), "diff lines")
