#!/usr/bin/env python3
"""sweep.py [--repo DIR] [--seeds A-B] [--tier quick|thorough] [--props C01,C02,...] [--cap SECONDS]

False-alarm / depth sweep: runs the registered checks for many VERIF_SEED values against a copy of the
repository (default: $VP_RUN_REPO, else /repo) with private build, evidence and findings directories, so it
can run in the background (vp run --with-repo) while /repo and /verif are being edited.  Not a registered
check and never a source of committed evidence."""
import os, sys, subprocess, argparse, time, shutil

HERE = os.path.dirname(os.path.abspath(__file__))
sys.path.insert(0, HERE)


def main():
    ap = argparse.ArgumentParser()
    ap.add_argument("--repo", default=os.environ.get("VP_RUN_REPO", "/repo"))
    ap.add_argument("--seeds", default="2-6")
    ap.add_argument("--tier", default="quick")
    ap.add_argument("--props", default="")
    ap.add_argument("--cap", type=int, default=0, help="override the tier's wall cap per check (seconds)")
    ap.add_argument("--work", default=None)
    a = ap.parse_args()
    import profiles
    props = [p for p in a.props.split(",") if p] or sorted(profiles.PROPS)
    lo, _, hi = a.seeds.partition("-")
    seeds = range(int(lo), int(hi or lo) + 1)
    work = a.work or os.path.join(os.getcwd(), "_sweep")
    os.makedirs(work, exist_ok=True)
    if a.repo != "/repo" and not os.path.exists(os.path.join(a.repo, "autoconf.h")) and os.path.exists("/repo/autoconf.h"):
        shutil.copy("/repo/autoconf.h", a.repo)
    env = dict(os.environ)
    env.update(VERIF_REPO=a.repo, VERIF_BUILD=os.path.join(work, "build"), VERIF_EVIDENCE_DIR=os.path.join(work, "evidence"),
               VERIF_FINDINGS_DIR=os.path.join(work, "findings"))
    if a.cap:
        env["VERIF_WALL"] = str(a.cap)
    bad = 0
    for seed in seeds:
        for p in props:
            env["VERIF_SEED"] = str(seed)
            t0 = time.time()
            cp = subprocess.run([sys.executable, os.path.join(HERE, "simctl.py"), "check", p, "--tier", a.tier],
                                capture_output=True, text=True, env=env)
            tail = [l for l in cp.stdout.strip().split("\n") if l][-1:] or [""]
            print("seed=%d %s rc=%d %.0fs %s" % (seed, p, cp.returncode, time.time() - t0, tail[0][:220]))
            if cp.returncode != 0:
                bad += 1
                sys.stdout.write(cp.stdout[-6000:] + "\n" + cp.stderr[-2000:] + "\n")
            sys.stdout.flush()
    print("SWEEP DONE bad=%d" % bad)
    sys.exit(1 if bad else 0)


if __name__ == "__main__":
    main()
