#!/bin/sh
# mkwt.sh <dir>: scratch worktree of /repo with a configured, built tree (outside /repo and /verif)
set -e
d=$1
git -C /repo worktree add --detach "$d" HEAD >/dev/null 2>&1
rsync -a --exclude .git --exclude '*.o' --exclude '*.lo' --exclude '*.la' --exclude .libs --exclude .deps --exclude src/iauthd-c --exclude '*.log' --exclude '*.trs' /repo/ "$d"/
cd "$d" && ./configure >/dev/null 2>&1 && make -j8 >/dev/null 2>&1 && make check 2>&1 | grep -E "^# (TOTAL|PASS|FAIL)"
