/* stub_module.c - C20 stub: one source, built once, copied under several
 * names.  Dependencies come from the environment (VERIF_DEPS_<name> =
 * comma list); every lifecycle event is reported to the host. */
#define _GNU_SOURCE 1
#include "src/common.h"

extern void sim_note(const char *fmt, ...);
static char myname[64];

#ifdef STUB_NO_CTOR
/* A module need not export a constructor either: this variant learns its name from the file it was loaded from. */
#include <dlfcn.h>
static void whoami(void)
{
    Dl_info di;
    const char *b;
    if (myname[0] || !dladdr((void *)whoami, &di) || !di.dli_fname)
        return;
    b = strrchr(di.dli_fname, '/');
    snprintf(myname, sizeof myname, "%s", b ? b + 1 : di.dli_fname);
    if (strrchr(myname, '.'))
        *strrchr(myname, '.') = 0;
}
#else
static void whoami(void) { }

void module_constructor(const char name[])
{
    char key[96];
    const char *d;

    snprintf(key, sizeof key, "VERIF_DEPS_%s", name);
    snprintf(myname, sizeof myname, "%s", name);
    sim_note("EV ctor-begin %s", name);
    d = getenv(key);
    if (d && *d) {
        char *c = strdup(d), *t, *sv, *nm[16];
        int n = 0, i;
        char mkey[96];
        snprintf(mkey, sizeof mkey, "VERIF_DEPMODE_%s", name);
        for (t = strtok_r(c, ",", &sv); t && n < 16; t = strtok_r(NULL, ",", &sv))
            nm[n++] = strdup(t);    /* module_depends keeps the pointers: leaked on purpose */
        if (getenv(mkey) && n >= 2 && n <= 12) {
            /* all dependencies declared in ONE call, as the API allows */
            switch (n) {
            case 2: module_depends(nm[0], nm[1], NULL); break;
            case 3: module_depends(nm[0], nm[1], nm[2], NULL); break;
            case 4: module_depends(nm[0], nm[1], nm[2], nm[3], NULL); break;
            case 5: module_depends(nm[0], nm[1], nm[2], nm[3], nm[4], NULL); break;
            case 6: module_depends(nm[0], nm[1], nm[2], nm[3], nm[4], nm[5], NULL); break;
            case 7: module_depends(nm[0], nm[1], nm[2], nm[3], nm[4], nm[5], nm[6], NULL); break;
            case 8: module_depends(nm[0], nm[1], nm[2], nm[3], nm[4], nm[5], nm[6], nm[7], NULL); break;
            case 9: module_depends(nm[0], nm[1], nm[2], nm[3], nm[4], nm[5], nm[6], nm[7], nm[8], NULL); break;
            case 10: module_depends(nm[0], nm[1], nm[2], nm[3], nm[4], nm[5], nm[6], nm[7], nm[8], nm[9], NULL); break;
            case 11: module_depends(nm[0], nm[1], nm[2], nm[3], nm[4], nm[5], nm[6], nm[7], nm[8], nm[9], nm[10], NULL); break;
            default: module_depends(nm[0], nm[1], nm[2], nm[3], nm[4], nm[5], nm[6], nm[7], nm[8], nm[9], nm[10], nm[11], NULL); break;
            }
            for (i = 0; i < n; i++)
                sim_note("EV dep-return %s %s", name, nm[i]);
        } else {
            for (i = 0; i < n; i++) {
                module_depends(nm[i], NULL);
                sim_note("EV dep-return %s %s", name, nm[i]);
            }
        }
        free(c);
    }
    /* the other two declarations of the documented contract: "I am a back-end provider of <other> and must be
     * unloaded after it" (the other module then depends on this one), and "I am a back-end of the core" */
    snprintf(key, sizeof key, "VERIF_ANTI_%s", name);
    d = getenv(key);
    if (d && *d) {
        char *c = strdup(d), *t, *sv;
        for (t = strtok_r(c, ",", &sv); t; t = strtok_r(NULL, ",", &sv)) {
            module_antidepends(strdup(t), NULL);
            sim_note("EV anti-return %s %s", name, t);
        }
        free(c);
    }
    snprintf(key, sizeof key, "VERIF_BACKEND_%s", name);
    if (getenv(key))
        module_is_backend();
    sim_note("EV ctor-end %s", name);
}
#endif

/* Both hooks are optional for a module (src/module.c looks them up with dlsym): the variants built with
 * -DSTUB_NO_POSTINIT / -DSTUB_NO_DTOR do not export them. */
#ifndef STUB_NO_POSTINIT
void module_post_init(struct module *self)
{
    whoami();
    sim_note("EV postinit %s %s", myname, module_get_name(self));
}
#endif

#ifndef STUB_NO_DTOR
void module_destructor(void)
{
    whoami();
    sim_note("EV dtor %s", myname);
}
#endif
