/* stub_module.c - C20 stub: one source, built once, copied under several
 * names.  Dependencies come from the environment (VERIF_DEPS_<name> =
 * comma list); every lifecycle event is reported to the host. */
#include "src/common.h"

extern void sim_note(const char *fmt, ...);
static char myname[64];

void module_constructor(const char name[])
{
    char key[96];
    const char *d;

    snprintf(key, sizeof key, "VERIF_DEPS_%s", name);
    snprintf(myname, sizeof myname, "%s", name);
    sim_note("EV ctor-begin %s", name);
    d = getenv(key);
    if (d && *d) {
        char *c = strdup(d), *t, *sv, *nm[16];
        int n = 0, i;
        char mkey[96];
        snprintf(mkey, sizeof mkey, "VERIF_DEPMODE_%s", name);
        for (t = strtok_r(c, ",", &sv); t && n < 16; t = strtok_r(NULL, ",", &sv))
            nm[n++] = strdup(t);    /* module_depends keeps the pointers: leaked on purpose */
        if (getenv(mkey) && n >= 2 && n <= 12) {
            /* all dependencies declared in ONE call, as the API allows */
            switch (n) {
            case 2: module_depends(nm[0], nm[1], NULL); break;
            case 3: module_depends(nm[0], nm[1], nm[2], NULL); break;
            case 4: module_depends(nm[0], nm[1], nm[2], nm[3], NULL); break;
            case 5: module_depends(nm[0], nm[1], nm[2], nm[3], nm[4], NULL); break;
            case 6: module_depends(nm[0], nm[1], nm[2], nm[3], nm[4], nm[5], NULL); break;
            case 7: module_depends(nm[0], nm[1], nm[2], nm[3], nm[4], nm[5], nm[6], NULL); break;
            case 8: module_depends(nm[0], nm[1], nm[2], nm[3], nm[4], nm[5], nm[6], nm[7], NULL); break;
            case 9: module_depends(nm[0], nm[1], nm[2], nm[3], nm[4], nm[5], nm[6], nm[7], nm[8], NULL); break;
            case 10: module_depends(nm[0], nm[1], nm[2], nm[3], nm[4], nm[5], nm[6], nm[7], nm[8], nm[9], NULL); break;
            case 11: module_depends(nm[0], nm[1], nm[2], nm[3], nm[4], nm[5], nm[6], nm[7], nm[8], nm[9], nm[10], NULL); break;
            default: module_depends(nm[0], nm[1], nm[2], nm[3], nm[4], nm[5], nm[6], nm[7], nm[8], nm[9], nm[10], nm[11], NULL); break;
            }
            for (i = 0; i < n; i++)
                sim_note("EV dep-return %s %s", name, nm[i]);
        } else {
            for (i = 0; i < n; i++) {
                module_depends(nm[i], NULL);
                sim_note("EV dep-return %s %s", name, nm[i]);
            }
        }
        free(c);
    }
    sim_note("EV ctor-end %s", name);
}

/* Both hooks are optional for a module (src/module.c looks them up with dlsym): the variants built with
 * -DSTUB_NO_POSTINIT / -DSTUB_NO_DTOR do not export them. */
#ifndef STUB_NO_POSTINIT
void module_post_init(struct module *self)
{
    sim_note("EV postinit %s %s", myname, module_get_name(self));
}
#endif

#ifndef STUB_NO_DTOR
void module_destructor(void)
{
    sim_note("EV dtor %s", myname);
}
#endif
