/* stub_module.c - C20 stub: one source, built once, copied under several
 * names.  Dependencies come from the environment (VERIF_DEPS_<name> =
 * comma list); every lifecycle event is reported to the host. */
#include "src/common.h"

extern void sim_note(const char *fmt, ...);
static char myname[64];

void module_constructor(const char name[])
{
    char key[96];
    const char *d;

    snprintf(key, sizeof key, "VERIF_DEPS_%s", name);
    snprintf(myname, sizeof myname, "%s", name);
    sim_note("EV ctor-begin %s", name);
    d = getenv(key);
    if (d && *d) {
        char *c = strdup(d), *t, *sv;
        for (t = strtok_r(c, ",", &sv); t; t = strtok_r(NULL, ",", &sv)) {
            /* module_depends keeps the pointer: leak the copy on purpose */
            module_depends(strdup(t), NULL);
            sim_note("EV dep-return %s %s", name, t);
        }
        free(c);
    }
    sim_note("EV ctor-end %s", name);
}

/* Both hooks are optional for a module (src/module.c looks them up with dlsym): the variants built with
 * -DSTUB_NO_POSTINIT / -DSTUB_NO_DTOR do not export them. */
#ifndef STUB_NO_POSTINIT
void module_post_init(struct module *self)
{
    sim_note("EV postinit %s %s", myname, module_get_name(self));
}
#endif

#ifndef STUB_NO_DTOR
void module_destructor(void)
{
    sim_note("EV dtor %s", myname);
}
#endif
