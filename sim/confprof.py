"""conf profile (C14, C15): reload histories against a reference model of the
configuration store.

The daemon runs with no modules; the host registers a universe of settings
(before the first load through VERIF_PREREG, later through REG), every one
with a logging hook.  A run is a sequence of loads (valid files, identical
files, damaged files) and registrations; after each the live tree is dumped
through the public config.h structs and compared with the model:

  effective value = value in the last good file, else the registered default;
  unregistered nodes = exactly those of the last good file.
"""
import copy, json, os, random, re, shutil
import host as H
from host import pct_dec
from world import Violation
from model import conf_quote
from runner import ddmin
import runner
import proto

STR, INADDR, LIST, OBJ = 0, 1, 2, 3
NAMES = ["a", "b", "c"]
CORE = 'core {\n library_path ( "/nonexistent" )\n modules ( )\n}\n'
SUBNAMES = {0: "plain", 1: "boolean", 2: "integer", 3: "float", 4: "interval", 5: "volume"}


# ------------------------------------------------------------ tree <-> text

def gen_value(rnd, ty, depth):
    if ty == STR:
        if rnd.random() < 0.04:     # long values: around the sizes at which buffers and vectors grow
            n = rnd.choice([255, 256, 257, 1023, 1024, 1025, 4095, 4096, 4097, 10000])
            return "".join(rnd.choice("abcdefghij klmnop.;,(){}") for _ in range(n))
        return rnd.choice(["1", "2", "x", "y", "5m", "true", "X", "hello world", "q\"uote", "back\\slash", "caf\xe9", "", "a;b", "line\nbreak", "#tok.en-_", "100%", "%s%s%s%s%n", "%d %x %s"])
    if ty == LIST:
        if rnd.random() < 0.06:     # long lists: counts at and across powers of two
            n = rnd.choice([4, 7, 8, 9, 15, 16, 17, 31, 32, 33, 64, 65])
            return [rnd.choice(["p", "q", "i%d" % k, "i%d" % k, "two words"]) for k in range(n)]
        return [rnd.choice(["p", "q", "r", "P", "two words", ""]) for _ in range(rnd.choice([0, 0, 1, 2, 3]))]
    if ty == INADDR:
        return [rnd.choice(["h1", "h2", "H1", "::1", "host.example.org"]), rnd.choice(["80", "81", "http"])]
    return gen_tree(rnd, depth + 1)


def gen_tree(rnd, depth=0):
    """tree = list of [name, type, value] (unique by (lower(name), type))"""
    t = []
    seen = set()
    for nm in NAMES:
        for _ in range(rnd.choice([0, 1, 1, 2])):
            ty = rnd.choice([STR, STR, LIST, INADDR, OBJ] if depth < 2 else [STR, LIST, INADDR])
            nmc = nm.upper() if rnd.random() < 0.15 else nm
            if (nm, ty) in seen:
                continue
            seen.add((nm, ty))
            t.append([nmc, ty, gen_value(rnd, ty, depth)])
    if rnd.random() < 0.04:
        # a wide object: many (unregistered) members
        for k in rnd.sample(range(70), rnd.choice([9, 17, 33, 65])):
            t.append(["w%02d" % k, STR, rnd.choice(["1", "2", "x"])])
    if depth == 0:
        # typed settings (always parsable values: an unparsable one is C16's "previous value stays")
        if rnd.random() < 0.6:
            t.append(["t", STR, rnd.choice(["5m", "30", "1h", "45", "300", "1:00", "2h3m4s"])])
        if rnd.random() < 0.4:
            t.append(["flag", STR, rnd.choice(["true", "false", "on", "off", "1", "0", "yes", "no"])])
        if rnd.random() < 0.3:
            t.append(["num", STR, rnd.choice(["0", "7", "0x10", "010", "321"])])
        if rnd.random() < 0.3:
            t.append(["ratio", STR, rnd.choice(["0", "-0", "0", "-0.0", "nan", "nan", "1.5", "8.0", "inf", "1e3", "0.1"])])
    return t


BARE = re.compile(r"^[A-Za-z0-9._#-]+$")


def tok(rnd, s):
    if BARE.match(s) and rnd.random() < 0.6:
        return s
    return conf_quote(s)


def render_tree(t, rnd, ind=""):
    out = []
    late = []
    for nm, ty, v in t:
        if rnd.random() < 0.15:
            out.append(ind + rnd.choice(["// comment", "/* c-style */", "/* multi\n   line */", "// trailing * / chars"]))
        name = tok(rnd, nm)
        term = rnd.choice(["", "", ";", " ;"])
        if ty == STR:
            if rnd.random() < 0.04 and nm not in ("t", "flag", "num", "ratio"):
                # the key is given twice: the later value is the one the file gives
                out.append("%s%s %s%s" % (ind, name, tok(rnd, v + "-earlier"), term))
            out.append("%s%s%s%s%s" % (ind, name, rnd.choice([" ", "  ", "\t"]), tok(rnd, v), term))
        elif ty == LIST:
            if len(v) >= 2 and rnd.random() < 0.3:
                # (the bare comma form needs an explicit ';': a newline alone is rejected by the parser - C16's business)
                out.append("%s%s %s;" % (ind, name, rnd.choice([", ", ",", " , "]).join(tok(rnd, x) for x in v)))
            else:
                op, cl = rnd.choice([("( ", " )"), ("(", ")"), ("(\n" + ind + "  ", "\n" + ind + ")")])
                out.append("%s%s %s%s%s%s" % (ind, name, op, rnd.choice([", ", ","]).join(tok(rnd, x) for x in v), cl, term))
        elif ty == INADDR:
            out.append("%s%s %s %s%s" % (ind, name, tok(rnd, v[0]), tok(rnd, v[1]), term))
        else:
            if len(v) >= 2 and rnd.random() < 0.15:
                # the object is written in two blocks of the same name (the second one possibly after other members
                # of the parent): they denote one object with the members of both
                cut = rnd.randrange(1, len(v))
                out.append("%s%s {" % (ind, name))
                out.append(render_tree(v[:cut], rnd, ind + "  "))
                out.append("%s}%s" % (ind, term))
                name2 = tok(rnd, nm.swapcase()) if rnd.random() < 0.25 else name
                rest = ["%s%s {" % (ind, name2), render_tree(v[cut:], rnd, ind + "  "), "%s}%s" % (ind, term)]
                if rnd.random() < 0.5:
                    late.append(rest)
                else:
                    out += rest
                continue
            out.append("%s%s {" % (ind, name))
            out.append(render_tree(v, rnd, ind + "  "))
            out.append("%s}%s" % (ind, term))
    for rest in late:
        out += rest
    return "\n".join(x for x in out if x != "")


def render_file(tree, seed):
    rnd = random.Random(seed)
    return CORE + render_tree(tree, rnd) + "\n"


# ------------------------------------------------------------------- model

def key(nm, ty):
    return (nm.lower(), ty)


def tree_to_dict(t):
    d = {}
    for nm, ty, v in t:
        d[key(nm, ty)] = tree_to_dict(v) if ty == OBJ else v
    return d


def parse_typed(sub, val):
    if val is None:
        return None
    if sub == 0:
        return val
    if sub == 1:
        if val in ("0", "false", "off", "disabled", "no"):
            return 0
        if val in ("1", "true", "on", "enabled", "yes"):
            return 1
        return None
    if sub == 2:
        try:
            if val.lower().startswith("0x"):
                return int(val, 16) & 0xffffffff
            if val.startswith("0") and len(val) > 1:
                return int(val, 8) & 0xffffffff
            return int(val, 10) & 0xffffffff
        except ValueError:
            return None
    if sub == 3:
        # (as text, the way the daemon's value is dumped: NaN compares equal to itself here and 0 differs from -0,
        # which is what "the value changed" means for a setting)
        try:
            return "%.17g" % float(val)
        except ValueError:
            return None
    if sub == 4:
        total = 0
        part = 0
        colons = 0
        for ch in val:
            if ch.isdigit():
                part = part * 10 + int(ch)
            elif ch in "dhmsy":
                total += part * {"d": 86400, "h": 3600, "m": 60, "s": 1, "y": 365 * 86400}[ch]
                part = 0
            elif ch == ":":
                total += part * (3600 if colons == 0 else 60)
                colons += 1
                part = 0
            else:
                return None
        return total + part
    return None


class Model:
    def __init__(self):
        self.reg = {}       # path (tuple of keys) -> (sub, default)
        self.file = {}      # nested dict from tree_to_dict, or None when unknown

    def expected(self):
        """-> {(path tuple): (specified, present, value, sub)}"""
        res = {}

        def walk(ft, prefix):
            keys = set(ft.keys()) if ft is not None else set()
            for rp in self.reg:
                if len(rp) == len(prefix) + 1 and rp[:len(prefix)] == prefix:
                    keys.add(rp[-1])
            for k in sorted(keys):
                nm, ty = k
                rp = prefix + (k,)
                spec = rp in self.reg
                pres = ft is not None and k in ft
                if ty == OBJ:
                    res[rp] = (int(spec), int(pres), None, 0)
                    walk(ft[k] if pres else None, rp)
                else:
                    sub, dflt = self.reg[rp] if spec else (0, None)
                    if ty == STR:
                        val = ft[k] if pres else dflt
                    elif ty == LIST:
                        val = list(ft[k]) if pres else list(dflt or [])
                    else:
                        val = list(ft[k]) if pres else list(dflt or [None, None])
                    res[rp] = (int(spec), int(pres), val, sub)
        walk(self.file, ())
        return res


def parse_dump(notes):
    """DUMPCONF notes -> {(path tuple): (specified, present, value, sub, parsed, flags)}"""
    res = {}
    for l in notes:
        if not l.startswith("N "):
            continue
        f = l.split(" ")
        ty = int(f[1])
        spec, pres = int(f[2][1:]), int(f[3][1:])
        comps = f[5].split("/")
        rest = f[6:]
        flags = []
        if rest and rest[0] == "BADPARENT":
            flags.append("BADPARENT")
            rest = rest[1:]
        types_unknown = [pct_dec(c) for c in comps]
        if ty == OBJ:
            val, sub, parsed = None, 0, None
        elif ty == STR:
            sub = int(rest[0][3:])
            val = pct_dec(rest[1])
            parsed = rest[2]
        elif ty == LIST:
            n = int(rest[0][1:-1])
            val = [pct_dec(x) for x in rest[1:1 + n]]
            sub, parsed = 0, None
        else:
            val = [pct_dec(rest[0]), pct_dec(rest[1])]
            sub, parsed = 0, None
        res[(tuple(types_unknown), ty)] = (spec, pres, val, sub, parsed, flags)
    return res


def dump_to_paths(dump):
    """Attach types to every path component (a parent is always an OBJ)."""
    out = {}
    for (comps, ty), v in dump.items():
        path = tuple((c.lower(), OBJ) for c in comps[:-1]) + ((comps[-1].lower(), ty),)
        out[path] = v
    return out


def compare(model, dump, where):
    exp = model.expected()
    got = {p: v for p, v in dump_to_paths(dump).items() if p[0][0] not in ("core", "logs")}
    viol = []
    for p in sorted(set(exp) | set(got), key=str):
        e, g = exp.get(p), got.get(p)
        ps = "/".join("%s:%d" % k for k in p)
        if e is None:
            viol.append(("leftover", "%s: node %s is in the live tree but neither registered nor in the last good file (%r)" % (where, ps, g[:3])))
            continue
        if g is None:
            viol.append(("missing", "%s: node %s (expected %r) is not in the live tree" % (where, ps, e[:3])))
            continue
        if (e[0], e[1]) != (g[0], g[1]):
            viol.append(("bits", "%s: node %s specified/present expected %d/%d got %d/%d" % (where, ps, e[0], e[1], g[0], g[1])))
            continue
        if "BADPARENT" in g[5]:
            viol.append(("parent", "%s: node %s has a wrong parent pointer" % (where, ps)))
        if p[-1][1] == OBJ:
            continue
        if e[2] != g[2]:
            viol.append(("value", "%s: setting %s should be %r (file value, else registered default) but is %r" % (where, ps, e[2], g[2])))
            continue
        if p[-1][1] == STR and e[0]:
            sub = e[3]
            if sub == 0:
                want = "P="     # the typed view of a plain string is the string itself (both NULL when unset)
                if g[4] != want:
                    viol.append(("parsed", "%s: plain string %s: parsed pointer state %s, expected %s" % (where, ps, g[4], want)))
            elif sub in (1, 2, 3, 4):
                pv = parse_typed(sub, e[2])
                if pv is not None and g[4][1:] != str(pv):
                    viol.append(("parsed", "%s: typed setting %s (%s) value %r should parse to %s, daemon has %s" %
                                 (where, ps, SUBNAMES[sub], e[2], pv, g[4])))
    return viol


def required_hooks(before, after, hooked=()):
    """(type, path-string) of every hook the statement demands.  `hooked`: paths of nodes that were given a hook
    directly (HOOKALL) although no code registered them; they count while both files have them."""
    need = []
    for p in sorted(set(before) | set(after), key=str):
        b, a = before.get(p), after.get(p)
        if a is None or b is None:
            continue
        if not (a[0] and b[0]) and p not in hooked:
            continue
        ty = p[-1][1]
        if ty == OBJ:
            kb = set(q[-1] for q in before if len(q) == len(p) + 1 and q[:len(p)] == p)
            ka = set(q[-1] for q in after if len(q) == len(p) + 1 and q[:len(p)] == p)
            if kb != ka:
                need.append((p, "membership %s -> %s" % (sorted(kb), sorted(ka))))
            continue
        bv, av = b[2], a[2]
        if ty == STR and a[3] != 0:
            bv, av = parse_typed(a[3], bv), parse_typed(a[3], av)
            if av is None and a[2] is not None:
                continue
        if ty == INADDR:
            bv = [x.lower() if x else x for x in bv]
            av = [x.lower() if x else x for x in av]
        if bv != av:
            need.append((p, "%r -> %r" % (b[2], a[2])))
    return need


def hook_paths(notes):
    out = set()
    for n in notes:
        if n.startswith("HOOK "):
            _, ty, path = n.split(" ", 2)
            comps = [pct_dec(c).lower() for c in path.split("/")]
            out.add((int(ty), tuple(comps)))
    return out


# ---------------------------------------------------------------- generator

def gen_regs(rnd):
    regs = []
    for _ in range(rnd.randint(1, 6)):
        depth = rnd.choice([1, 1, 2, 3])
        parents = [(rnd.choice(NAMES), OBJ) for _ in range(depth - 1)]
        ty = rnd.choice([STR, STR, LIST, INADDR, OBJ])
        k = (rnd.choice(NAMES), ty)
        if ty == STR:
            d = rnd.choice(["dx", "dy", None, "X", "x"])
        elif ty == LIST:
            d = rnd.choice([[], ["d1"], ["d1", "d2"], ["p"]])
        elif ty == INADDR:
            d = rnd.choice([["dh", "ds"], ["H1", "80"], [None, None], [None, "7700"], ["anyhost", None]])
        else:
            d = None
        path = parents + [k]
        if any(r["path"] == [list(x) for x in path] for r in regs):
            continue
        regs.append({"path": [list(x) for x in path], "sub": 0, "default": d,
                     "listapi": rnd.choice(["list", "listv"]) if ty == LIST else None})
    if rnd.random() < 0.5:
        regs.append({"path": [["t", STR]], "sub": 4, "default": rnd.choice(["30", "5m"]), "listapi": None})
    if rnd.random() < 0.3:
        regs.append({"path": [["flag", STR]], "sub": 1, "default": rnd.choice(["true", "false"]), "listapi": None})
    if rnd.random() < 0.3:
        regs.append({"path": [["num", STR]], "sub": 2, "default": "321", "listapi": None})
    if rnd.random() < 0.35:
        regs.append({"path": [["ratio", STR]], "sub": 3, "default": rnd.choice(["1.5", "0", "2"]), "listapi": None})
    return regs


def reg_tokens(r):
    path = [p[0] for p in r["path"]]
    ty = r["path"][-1][1]
    if ty == OBJ:
        return "obj", path, []
    if ty == LIST:
        return (r.get("listapi") or "list"), path, list(r["default"] or [])
    if ty == INADDR:
        return "inaddr", path, list(r["default"] or [None, None])
    return str(r["sub"]), path, [r["default"]]


def reg_line(r):
    kind, path, args = reg_tokens(r)
    p = "/".join(H.pct_enc(x)[1:] for x in path)
    return "%s %s %s" % (kind, p, " ".join(H.pct_enc(a) for a in args))


def damage(rnd, text):
    k = rnd.random()
    b = text.encode("latin1")
    if k < 0.35:
        return {"how": "torn", "cut": rnd.randrange(len(b) + 1)}
    if k < 0.55:
        return {"how": "flip", "pos": [rnd.randrange(len(b)) for _ in range(rnd.randint(1, 4))],
                "val": [rnd.choice([0, 34, 40, 41, 44, 47, 59, 92, 123, 125, 10, 255, rnd.randrange(256)]) for _ in range(4)]}
    if k < 0.62:
        i = rnd.randrange(len(b))
        return {"how": "delete", "at": i, "n": rnd.choice([1, 1, 2, rnd.randint(1, 30)])}
    if k < 0.68:
        i = rnd.randrange(len(b))
        return {"how": "dup", "at": i, "n": rnd.randint(1, 30)}
    if k < 0.8:
        # parser-relevant fragments spliced in at a random position (inside or outside strings)
        frags = ['\\x4"', '\\x', '\\xg"', '\\', '"', '\\"', '/*', '*/', '//', '(', ')', '{', '}', ',', ';', '\n', '\\x4', '\x00',
                 '\\x4"\n', '"\\', '\\n"', '""', '( (', '} }', ',,', '/', '/*/', '\\x',
                 '%s%s%s%s%s%n', ' %n oops here', '"%s%s" %s )', '%']
        return {"how": "splice", "at": [rnd.randrange(len(b) + 1) for _ in range(rnd.choice([1, 1, 2]))],
                "frag": [rnd.choice(frags) for _ in range(2)]}
    if k < 0.82:
        # the file starts with bytes an editor put there (byte order marks, a stray NUL, a form feed)
        return {"how": "prefix", "bytes": rnd.choice(["\xef\xbb\xbf", "\xef\xbb\xbf", "\xff\xfe", "\xfe\xff", "\x00", "\x0c", "\xef\xbb", "\xef"])}
    if k < 0.85:
        return {"how": "random", "bytes": "".join(chr(rnd.randrange(256)) for _ in range(rnd.randint(1, 200)))}
    if k < 0.9:
        return {"how": "empty"}
    if k < 0.94:
        return {"how": "missing"}
    if k < 0.97:
        return {"how": "isdir"}         # the path names a directory: it opens, reading fails
    return {"how": "eio"}


def apply_damage(d, text):
    b = bytearray(text.encode("latin1"))
    h = d["how"]
    if h == "torn":
        return bytes(b[:d["cut"]])
    if h == "flip":
        for p, v in zip(d["pos"], d["val"]):
            if p < len(b):
                b[p] = v
        return bytes(b)
    if h == "delete":
        del b[d["at"]:d["at"] + d["n"]]
        return bytes(b)
    if h == "dup":
        b[d["at"]:d["at"]] = b[d["at"]:d["at"] + d["n"]]
        return bytes(b)
    if h == "splice":
        for at, fr in sorted(zip(d["at"], d["frag"]), reverse=True):
            b[at:at] = fr.encode("latin1")
        return bytes(b)
    if h == "prefix":
        return d["bytes"].encode("latin1") + bytes(b)
    if h == "random":
        return d["bytes"].encode("latin1")
    if h == "empty":
        return b""
    return bytes(b)


class ConfProfile:
    name = "conf"

    def gen_run(self, rnd, opts, tier, tag):
        prop = opts.get("prop", "C15")
        regs = gen_regs(rnd)
        for r in regs:
            r["when"] = 0 if rnd.random() < 0.4 else rnd.randint(1, 6)
        nfiles = rnd.randint(2, 6)
        trees = [gen_tree(rnd) for _ in range(nfiles)]
        steps = []
        for n, t in enumerate(trees):
            steps.append({"op": "load", "tree": t, "layout": rnd.randrange(1 << 30)})
            if n and rnd.random() < 0.1:
                steps[-1]["short"] = rnd.choice([1, -1]) * rnd.randrange(1 << 16)
            if rnd.random() < 0.3:
                steps.append({"op": "load", "tree": copy.deepcopy(t), "layout": steps[-1]["layout"] if rnd.random() < 0.5 else rnd.randrange(1 << 30), "same": True})
            p_dmg = 0.8 if prop == "C14" else 0.15
            while rnd.random() < p_dmg:
                base = render_file(rnd.choice(trees), rnd.randrange(1 << 30))
                d = damage(rnd, base)
                d["base"] = base
                steps.append({"op": "damage", "d": d})
                p_dmg *= 0.5
        if rnd.random() < 0.3:
            steps.insert(rnd.randrange(1, len(steps) + 1), {"op": "load", "tree": copy.deepcopy(trees[0]), "layout": rnd.randrange(1 << 30)})
        if rnd.random() < 0.3:
            # from here on every node of the live tree carries a change hook, installed directly on the node as
            # src/log.c and the decision modules do for the entries of their sections
            steps.insert(rnd.randrange(1, len(steps) + 1), {"op": "hookall"})
        # registrations after the k-th step
        plan = {"profile": "conf", "prop": prop, "regs": regs, "steps": steps}
        if opts.get("every_cut") and tier == "thorough" and rnd.random() < 0.2:
            plan["every_cut"] = True
        return plan, self.run(plan, tag)

    def run(self, plan, tag):
        res = proto.Result()
        res.extra = {"loads": 0, "identical_reloads": 0, "damaged_loads": 0, "damaged_rejected": 0, "damaged_accepted": 0,
                     "registrations_late": 0, "dumps_compared": 0, "hooks_required": 0, "valid_file_rejected": 0,
                     "value_changes_seen": 0}
        scratch = H.new_scratch(tag)
        conf = os.path.join(scratch, "iauthd.conf")
        steps = plan["steps"]
        regs = plan["regs"]
        model = Model()
        viol = []
        first = next((s for s in steps if s["op"] == "load"), None)
        if first is None:
            res.hash = "empty"
            shutil.rmtree(scratch, ignore_errors=True)
            return res
        text0 = render_file(first["tree"], first["layout"])
        with open(conf, "w", encoding="latin1") as f:
            f.write(text0)
        pre = [r for r in regs if r.get("when", 0) == 0]
        env = {"VERIF_PREREG": ";".join(reg_line(r) for r in pre)} if pre else {}

        def note_reg(r):
            path = tuple(key(*p) for p in r["path"])
            for n in range(1, len(path)):
                model.reg.setdefault(path[:n], (0, None))
            if path[-1][1] == OBJ:
                model.reg.setdefault(path, (0, None))
            else:
                model.reg[path] = (r["sub"], r["default"])
        for r in pre:
            note_reg(r)
        h = H.Host(conf, scratch, env=env, leaks=False)
        res.transcript.append(("conf", text0))
        res.transcript.append(("prereg", [reg_line(r) for r in pre], []))
        died = None
        try:
            if h.ready is None:
                raise H.HostDied()
            if "CONFREAD 0" not in h.ready.notes:
                res.extra["valid_file_rejected"] += 1
                raise StopIteration
            model.file = tree_to_dict(first["tree"])
            res.extra["loads"] += 1

            def dumpcmp(where):
                d = parse_dump(h.dumpconf().notes)
                res.extra["dumps_compared"] += 1
                au = h.audit().notes
                if any(n.startswith("AUDIT FAIL") for n in au):
                    viol.append(Violation(("C15", "C14"), "audit", "%s: structural audit of the config tree failed: %s" % (where, au)))
                for rule, msg in compare(model, d, where):
                    viol.append(Violation(("C15",), rule, msg))
            dumpcmp("after the initial load")
            hooked = set()
            started = False
            nstep = 0
            for s in steps:
                if viol:
                    break
                if s is first and not started:
                    started = True
                    nstep += 1
                else:
                    nstep += 1
                    if s["op"] == "load":
                        text = render_file(s["tree"], s["layout"])
                        with open(conf, "w", encoding="latin1") as f:
                            f.write(text)
                        before = model.expected() if model.file is not None else None
                        if s.get("short") is not None:
                            # the first read of the file returns a short count (no error, no end of file)
                            raw = text.encode("latin1")
                            tops = [i + 1 for i in range(len(raw) - 1) if raw[i:i + 1] == b"\n" and raw[i + 1:i + 2] not in (b" ", b"\t", b"\n", b"}", b")")]
                            k = s["short"]
                            if tops and k >= 0:
                                b = tops[k % len(tops)]
                                nshort = b if (k // len(tops)) % 2 == 0 else len(raw) - b
                            else:
                                nshort = 1 + abs(k) % max(1, len(raw) - 1)
                            h.freadshort(max(1, nshort))
                            res.extra["loads_with_a_short_read"] = res.extra.get("loads_with_a_short_read", 0) + 1
                        rep = h.sig("USR1")
                        res.transcript.append(("load", text, rep.notes))
                        if "CONFREAD 0" not in rep.notes and s.get("short") is not None and any(n.startswith("CONFREAD") for n in rep.notes):
                            # giving up on a short read is the daemon's right: then nothing may have changed
                            res.extra["short_read_loads_rejected"] = res.extra.get("short_read_loads_rejected", 0) + 1
                            if hook_paths(rep.notes):
                                viol.append(Violation(("C14",), "failed-load-notifies", "a load that reported an error (short read) delivered change "
                                                      "notifications %s" % sorted(hook_paths(rep.notes))))
                            if model.file is not None:
                                dumpcmp("after load %d, which failed on a short read" % nstep)
                            continue
                        if "CONFREAD 0" not in rep.notes:
                            res.extra["valid_file_rejected"] += 1
                            break
                        res.extra["loads"] += 1
                        newfile = tree_to_dict(s["tree"])
                        same = (model.file is not None and newfile == model.file)
                        model.file = newfile
                        hooks = hook_paths(rep.notes)
                        if same:
                            res.extra["identical_reloads"] += 1
                            if hooks:
                                viol.append(Violation(("C15",), "identical-notifies", "loading identical content notified %s" % sorted(hooks)))
                        if before is not None:
                            after = model.expected()
                            need = required_hooks(before, after, hooked)
                            hooked &= set(after)        # an unregistered node the file drops is gone, and its hook with it
                            res.extra["hooks_required"] += len(need)
                            res.extra["value_changes_seen"] += int(bool(need))
                            for p, why in need:
                                hk = (p[-1][1], tuple(k[0] for k in p))
                                if hk not in hooks:
                                    viol.append(Violation(("C15",), "hook-missing", "registered %s %s changed (%s) but its hook did not run; hooks run: %s" %
                                                          ("object" if p[-1][1] == OBJ else "setting", "/".join(k[0] for k in p), why, sorted(hooks))))
                        dumpcmp("after load %d" % nstep)
                    elif s["op"] == "hookall":
                        h.hookall()
                        if model.file is not None:
                            hooked |= set(model.expected())
                        res.extra["hook_all_nodes"] = 1
                        res.transcript.append(("hookall", {}, []))
                    elif s["op"] == "damage":
                        d = s["d"]
                        cuts = [None]
                        if plan.get("every_cut") and d["how"] == "torn":
                            cuts = list(range(len(d["base"].encode("latin1")) + 1))
                        for cut in cuts:
                            dd = dict(d, cut=cut) if cut is not None else d
                            data = apply_damage(dd, d["base"])
                            if d["how"] in ("missing", "isdir"):
                                try:
                                    os.unlink(conf)
                                except OSError:
                                    pass
                                if d["how"] == "isdir":
                                    os.mkdir(conf)
                            else:
                                with open(conf, "wb") as f:
                                    f.write(data)
                            before_dump = parse_dump(h.dumpconf().notes)
                            if d["how"] == "eio":
                                h.freadfault()
                            rep = h.sig("USR1")
                            if d["how"] == "isdir":
                                os.rmdir(conf)
                            res.extra["damaged_loads"] += 1
                            rcs = [int(n.split()[1]) for n in rep.notes if n.startswith("CONFREAD")]
                            res.transcript.append(("damaged-load", {k: v for k, v in dd.items() if k != "base"}, rep.notes))
                            if not rcs:
                                viol.append(Violation(("C14",), "no-result", "reload did not return"))
                                break
                            if rcs[-1] != 0:
                                res.extra["damaged_rejected"] += 1
                                after_dump = parse_dump(h.dumpconf().notes)
                                hooks = hook_paths(rep.notes)
                                if hooks:
                                    viol.append(Violation(("C14",), "failed-load-notifies", "a load that reported an error delivered change notifications %s (damage %s)" %
                                                          (sorted(hooks), {k: v for k, v in dd.items() if k != "base"})))
                                if after_dump != before_dump:
                                    diff = [k for k in set(before_dump) | set(after_dump) if before_dump.get(k) != after_dump.get(k)]
                                    viol.append(Violation(("C14",), "failed-load-changes", "a load that reported an error changed the live configuration at %s: %r -> %r" %
                                                          (diff[:3], [before_dump.get(k) for k in diff[:3]], [after_dump.get(k) for k in diff[:3]])))
                            else:
                                res.extra["damaged_accepted"] += 1
                                model.file = None       # by accident a valid file: re-synchronise at the next good load
                                hooked.clear()          # (which directly hooked nodes survived it is not known either)
                            if viol:
                                break
                # late registrations due after this step
                for r in regs:
                    if r.get("when", 0) == nstep and not viol:
                        kind, path, args = reg_tokens(r)
                        h.reg(kind, path, *args)
                        note_reg(r)
                        res.extra["registrations_late"] += 1
                        res.transcript.append(("reg", reg_line(r), []))
                        if model.file is not None:
                            dumpcmp("after registering %s" % reg_line(r))
            if not h.dead:
                h.sig("HUP")
        except (H.HostDied, H.HostHang) as ex:
            died = type(ex).__name__
        except StopIteration:
            pass
        ex = h.finish(kill=(died == "HostHang"))
        res.exit = ex
        res.hash = h.digest()
        res.ubsan = ex.ubsan
        props = ("C14", "C15")
        if died == "HostHang":
            viol.insert(0, Violation(props, "hang", "configuration load did not terminate"))
        elif ex.asan:
            viol.insert(0, Violation(props, "memory-error", "AddressSanitizer: %s in %s" % (ex.asan, ex.asan_frames[:5])))
        elif ex.signal:
            viol.insert(0, Violation(props, "signal", "daemon killed by %s" % ex.signal))
        elif died and res.extra["valid_file_rejected"] == 0:
            viol.insert(0, Violation(props, "died", "daemon exited unexpectedly rc=%s: %s" % (ex.rc, ex.stderr[-300:])))
        elif not died and res.extra["valid_file_rejected"] == 0 and (ex.rc != 0 or not ex.teardown):
            viol.append(Violation(props, "unclean-exit", "exit status %s teardown %s: %s" % (ex.rc, ex.teardown, ex.stderr[-300:])))
        mem = [u for u in ex.ubsan if any(x in u for x in ("null pointer", "out of bounds", "misaligned", "object size"))]
        if mem and not viol:
            viol.append(Violation(props, "ub-memory", "UBSan: %s" % mem[0]))
        res.viol = viol
        res.steps = res.extra["loads"] + res.extra["damaged_loads"]
        prop = plan.get("prop", "C15")
        if prop == "C14":
            res.nontrivial = res.extra["damaged_rejected"] > 0
        else:
            res.nontrivial = res.extra["loads"] >= 2 and res.extra["dumps_compared"] >= 2
        shutil.rmtree(scratch, ignore_errors=True)
        return res

    def transcript(self, res):
        out = []
        for t in res.transcript:
            if t[0] == "conf":
                out += ["--- initial file ---"] + ["    " + l for l in t[1].split("\n")]
            elif t[0] == "load":
                out += ["> [load]"] + ["    " + l for l in t[1].split("\n")] + ["    < %s" % n for n in t[2]]
            else:
                out.append("> [%s] %s" % (t[0], json.dumps(t[1])[:1500]))
                out += ["    < %s" % n for n in t[2]]
        ex = res.exit
        if ex is not None:
            out.append("exit: rc=%s teardown=%s asan=%s ubsan=%d" % (ex.rc, ex.teardown, ex.asan, len(ex.ubsan)))
            if ex.asan:
                out += ["    ! " + l for l in ex.stderr.split("\n")[:45]]
        return out

    def shrink(self, plan, pred, budget):
        cur = copy.deepcopy(plan)
        cur.pop("every_cut", None)
        if not pred(cur):
            cur = copy.deepcopy(plan)

        def t_steps(st):
            if not any(s["op"] == "load" for s in st):
                return False
            c = dict(cur)
            c["steps"] = st
            return pred(c)
        cur["steps"] = ddmin(cur["steps"], t_steps, budget)

        def t_regs(rg):
            c = dict(cur)
            c["regs"] = rg
            return pred(c)
        if cur["regs"]:
            budget[0] -= 1
            if t_regs([]):
                cur["regs"] = []
            else:
                cur["regs"] = ddmin(cur["regs"], t_regs, budget)
        # shrink trees: drop top-level entries of each loaded tree
        for si, s in enumerate(cur["steps"]):
            if s["op"] != "load":
                continue
            j = 0
            while j < len(cur["steps"][si]["tree"]) and budget[0] > 0:
                c = copy.deepcopy(cur)
                del c["steps"][si]["tree"][j]
                budget[0] -= 1
                if pred(c):
                    cur = c
                else:
                    j += 1
        return cur


runner.register(ConfProfile())
