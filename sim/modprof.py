"""modules profile (C20): module load/unload order over dependency graphs,
with load-failure injection (module file missing / not an ELF object).

Six copies of one stub module report constructor begin/end, the return of
each module_depends() call, post-init and destructor to the host.
"""
import copy, json, os, random, shutil
import host as H
import proto
from world import Violation
from runner import ddmin
import runner

NAMES = ["m0", "m1", "m2", "m3", "m4", "m5", "m6", "m7", "m8", "m9"]
# names one of which is a (case-insensitive) prefix of another: m < m1 < m1x < m1xy, m2 < M2z
PREFIXY = ["m", "m1", "m1x", "m1xy", "m2", "M2z"]


def has_cycle(nodes, deps):
    col = {}

    def dfs(u):
        col[u] = 1
        for v in deps.get(u, []):
            if v not in nodes:
                continue
            if col.get(v) == 1:
                return True
            if col.get(v) is None and dfs(v):
                return True
        col[u] = 2
        return False
    return any(col.get(u) is None and dfs(u) for u in sorted(nodes))


def closure(listed, deps, anti=None):
    """modules that get loaded: the listed ones, what they depend on, and what they declare themselves back-ends of"""
    clo, st = set(), list(listed)
    while st:
        u = st.pop()
        if u in clo:
            continue
        clo.add(u)
        st += deps.get(u, [])
        st += (anti or {}).get(u, [])
    return clo


def effective(clo, deps, anti):
    """dependency edges in force among the loaded modules: a module depends on what it named with module_depends()
    and on every loaded module that declared itself its back-end with module_antidepends()"""
    eff = {m: list(deps.get(m, [])) for m in clo}
    for b in sorted(clo):
        for a in (anti or {}).get(b, []):
            if a in eff and b not in eff[a]:
                eff[a].append(b)
    return eff


class ModProfile:
    name = "modules"

    def gen_run(self, rnd, opts, tier, tag):
        n = rnd.randint(2, 6) if rnd.random() < 0.93 else rnd.randint(7, 10)
        nodes = NAMES[:n]
        if rnd.random() < 0.2:
            nodes = rnd.sample(PREFIXY, min(n, len(PREFIXY)))
            n = len(nodes)
        order = nodes[:]
        rnd.shuffle(order)
        deps = {m: [] for m in nodes}
        shape = rnd.choice(["random", "random", "chain", "diamond", "fork", "dense"])
        if rnd.random() < 0.04:
            # a hub: one module that depends on every other one (as many dependencies as there are modules)
            shape = "hub"
            n = rnd.choice([9, 10, 10])
            nodes = NAMES[:n]
            order = nodes[:]
            rnd.shuffle(order)
            deps = {m: [] for m in nodes}
            deps[order[0]] = order[1:]
        if shape == "hub":
            pass
        elif shape == "chain":
            for a, b in zip(order, order[1:]):
                deps[a].append(b)
        elif shape == "diamond" and n >= 4:
            a, b, c, d = order[:4]
            deps[a] = [b, c]
            deps[b] = [d]
            deps[c] = [d]
            for m in order[4:]:
                if rnd.random() < 0.5:
                    deps[rnd.choice([a, b, c, d])].append(m)
        else:
            p = {"random": 0.4, "fork": 0.25, "dense": 0.8}.get(shape, 0.4)
            for i, m in enumerate(order):
                for d in order[i + 1:]:
                    if rnd.random() < p:
                        deps[m].append(d)
        for m in nodes:
            rnd.shuffle(deps[m])
        cyc = None
        if rnd.random() < 0.2:
            k = rnd.random()
            if k < 0.3:
                a = rnd.choice(order)
                deps[a].append(a)
                cyc = "self"
            else:
                i, j = sorted(rnd.sample(range(n), 2))
                deps[order[j]].append(order[i])
                cyc = "back-edge"
        listed = [m for m in nodes if rnd.random() < 0.6] or [order[0]]
        rnd.shuffle(listed)
        if rnd.random() < 0.1:
            listed.append(rnd.choice(listed))       # listed twice
        fault = None
        if rnd.random() < 0.2:
            fault = {"kind": rnd.choice(["missing", "notelf"]), "module": rnd.choice(nodes)}
        # which optional hooks each module exports (post-init and destructor are both optional)
        variant = {m: rnd.choices(["", "_np", "_nd", "_npd"], [5, 2, 1, 1])[0] for m in nodes} if rnd.random() < 0.6 else {}
        anti, backend = {}, []
        if shape != "hub" and rnd.random() < 0.25:
            # back-end declarations: module b says it is a back-end provider of a (so a depends on b, and b must be
            # unloaded after a); consistent with the intended order, so the graph stays acyclic
            for _ in range(rnd.choice([1, 1, 2, 3])):
                i, j = sorted(rnd.sample(range(n), 2))
                a, b = order[i], order[j]
                if b not in deps[a] and a not in anti.get(b, []):
                    anti.setdefault(b, []).append(a)
        if rnd.random() < 0.2:
            backend = sorted(m for m in nodes if rnd.random() < 0.3)      # "I am a back-end of the core"
        if rnd.random() < 0.25:
            # a module need not export a constructor either (such a module cannot declare dependencies)
            for m in nodes:
                if not deps[m] and m not in anti and m not in backend and rnd.random() < 0.5:
                    variant[m] = "_nc"
        bulk = 0
        if rnd.random() < 0.012:
            # a crowd of independent modules, all listed, whose names sort before everybody else's
            bulk = rnd.choice([126, 127, 128, 129, 135, 140])
            extra = ["a%03d" % k for k in range(bulk)]
            nodes = extra + nodes
            for m in extra:
                deps[m] = []
            listed = extra + listed
            if rnd.random() < 0.5:
                rnd.shuffle(listed)
        plan = {"profile": "modules", "nodes": nodes, "deps": deps, "listed": listed, "fault": fault, "shape": shape, "cyc": cyc, "bulk": bulk,
                "variant": variant, "anti": anti, "backend": backend,
                # modules that declare all their dependencies in one module_depends() call
                "onecall": sorted(m for m in nodes if 2 <= len(deps[m]) <= 12 and rnd.random() < 0.5),
                "stop": rnd.choice(["HUP", "HUP", "EOFLESS"])}
        return plan, self.run(plan, tag)

    def run(self, plan, tag):
        res = proto.Result()
        nodes, deps, listed, fault = plan["nodes"], plan["deps"], plan["listed"], plan.get("fault")
        scratch = H.new_scratch(tag)
        os.makedirs(os.path.join(scratch, "mods"))
        for m in nodes:
            dst = os.path.join(scratch, "mods", m + ".so")
            if fault and fault["module"] == m:
                if fault["kind"] == "notelf":
                    with open(dst, "wb") as f:
                        f.write(b"this is not an ELF object\n" * 10)
                continue
            os.symlink(os.path.join(H.STUBS, m + plan.get("variant", {}).get(m, "") + ".so"), dst)
        conf = os.path.join(scratch, "iauthd.conf")
        text = 'core {\n library_path ( "mods" )\n modules ( %s )\n}\n' % ", ".join(listed)
        with open(conf, "w") as f:
            f.write(text)
        env = {"VERIF_DEPS_" + m: ",".join(deps.get(m, [])) for m in nodes}
        for m in plan.get("onecall", []):
            env["VERIF_DEPMODE_" + m] = "1"
        anti = plan.get("anti") or {}
        for m, v in anti.items():
            env["VERIF_ANTI_" + m] = ",".join(v)
        for m in plan.get("backend") or []:
            env["VERIF_BACKEND_" + m] = "1"
        h = H.Host(conf, scratch, env=env)
        res.transcript.append(("conf", text))
        res.transcript.append(("deps", deps, []))
        if anti or plan.get("backend"):
            res.transcript.append(("back-end declarations", {"antidepends": anti, "is_backend": plan.get("backend")}, []))
        res.transcript.append(("fault", fault, []))
        notes = []
        reached = h.ready is not None and h.ready.status == "READY"
        died = None
        try:
            if reached:
                notes += h.ready.notes
                rep = h.sig("HUP")
                notes += rep.notes
        except (H.HostDied, H.HostHang) as ex:
            died = type(ex).__name__
        ex = h.finish(kill=(died == "HostHang"))
        notes += ex.notes
        res.exit = ex
        res.hash = h.digest()
        res.ubsan = ex.ubsan
        ev = [n.split()[1:] for n in notes if n.startswith("EV ")]
        res.transcript.append(("events", [" ".join(e) for e in ev], []))
        res.transcript.append(("outcome", {"reached_loop": reached, "rc": ex.rc, "stderr": ex.stderr[-300:]}, []))
        viol = []
        clo = closure(listed, deps, anti)
        declared = deps
        deps = effective(clo, declared, anti)       # from here on: the edges in force among the loaded modules
        for m in nodes:
            deps.setdefault(m, list(declared.get(m, [])))
        bad = has_cycle(clo, deps) or (fault is not None and fault["module"] in clo)
        res.extra = {"graphs": 1, "acyclic_loadable": int(not bad), "cyclic": int(has_cycle(clo, deps)),
                     "unloadable": int(fault is not None and fault["module"] in clo),
                     "multi_path": int(self.multipath(clo, deps)), "edges": sum(len(deps[m]) for m in clo),
                     "runs_with_over_125_modules": int(bool(plan.get("bulk"))),
                     "modules_declaring_all_dependencies_in_one_call": len([m for m in plan.get("onecall", []) if m in clo]),
                     "modules_without_postinit": sum(1 for m in clo if plan.get("variant", {}).get(m, "") in ("_np", "_npd")),
                     "modules_without_destructor": sum(1 for m in clo if plan.get("variant", {}).get(m, "") in ("_nd", "_npd")),
                     "antidepends_edges": sum(len(v) for m, v in anti.items() if m in clo),
                     "modules_declaring_is_backend": len([m for m in plan.get("backend") or [] if m in clo]),
                     "modules_without_constructor": sum(1 for m in clo if plan.get("variant", {}).get(m, "") == "_nc")}
        pos = {}
        for i, e in enumerate(ev):
            pos.setdefault(tuple(e), i)
        if ex.asan:
            viol.append(Violation(("C20",), "memory-error", "AddressSanitizer: %s in %s" % (ex.asan, ex.asan_frames[:5])))
        elif bad:
            if reached or ex.rc == 0:
                viol.append(Violation(("C20",), "bad-graph-started", "%s but start-up %s (exit status %s)" %
                                      ("dependency cycle" if has_cycle(clo, deps) else "unloadable module %s" % fault,
                                       "reached the event loop" if reached else "did not abort with an error", ex.rc)))
        else:
            if not reached or ex.rc != 0 or died:
                viol.append(Violation(("C20",), "good-graph-aborted", "acyclic, loadable dependency graph but start-up aborted (reached loop: %s, exit status %s): %s" %
                                      (reached, ex.rc, (ex.out.decode("latin1") + ex.stderr)[-300:].replace("\n", " "))))
            else:
                var = plan.get("variant", {})
                has_pi = {m: var.get(m, "") in ("", "_nd", "_nc") for m in clo}
                has_dt = {m: var.get(m, "") in ("", "_np", "_nc") for m in clo}
                has_ct = {m: var.get(m, "") != "_nc" for m in clo}
                for m in sorted(clo):
                    for k in ("ctor-begin", "ctor-end", "postinit", "dtor"):
                        c = sum(1 for e in ev if e[0] == k and e[1] == m)
                        want = 1 if ((k.startswith("ctor") and has_ct[m]) or (k == "postinit" and has_pi[m]) or (k == "dtor" and has_dt[m])) else 0
                        if c != want:
                            viol.append(Violation(("C20",), "count", "%s of %s happened %d times, expected %d" % (k, m, c, want)))
                if not viol:
                    for m in sorted(clo):
                        for d in declared[m]:
                            if any(a in clo for a in anti):
                                # a back-end's module_antidepends() loads the other module from inside the
                                # back-end's own constructor: whatever is loaded from there may name the
                                # half-constructed back-end.  The construction clause is checked for graphs
                                # without such declarations; post-init and destructor order apply to all.
                                continue
                            if ("dep-return", m, d) not in pos:
                                viol.append(Violation(("C20",), "ctor-order", "%s declared a dependency on %s but its module_depends() call was never seen to return" % (m, d)))
                            elif has_ct[d] and not pos[("ctor-end", d)] < pos[("dep-return", m, d)]:
                                viol.append(Violation(("C20",), "ctor-order", "%s was still constructing when %s's module_depends(%s) returned" % (d, m, d)))
                        # transitively: a module without the hook in between does not break the chain
                        for d in sorted(closure(deps[m], deps) - {m}):
                            if has_pi[m] and has_pi[d] and not pos[("postinit", d, d)] < pos[("postinit", m, m)]:
                                viol.append(Violation(("C20",), "postinit-order", "post-init of %s ran before that of its dependency %s" % (m, d)))
                            if has_dt[m] and has_dt[d] and not pos[("dtor", m)] < pos[("dtor", d)]:
                                viol.append(Violation(("C20",), "dtor-order", "destructor of %s ran after that of its dependency %s" % (m, d)))
                    lastctor = max([pos[("ctor-end", m)] for m in clo if has_ct[m]] or [-1])
                    firstpi = min([pos[("postinit", m, m)] for m in clo if has_pi[m]] or [len(ev)])
                    if not lastctor < firstpi:
                        viol.append(Violation(("C20",), "postinit-early", "a post-init ran before every module was constructed"))
                    extra = [e for e in ev if e[1] not in clo]
                    if extra:
                        viol.append(Violation(("C20",), "outside-closure", "module outside the dependency closure was loaded: %s" % extra[0]))
                    if not ex.teardown:
                        viol.append(Violation(("C20",), "unclean-exit", "teardown did not complete"))
        res.viol = viol
        res.steps = len(ev)
        res.nontrivial = len(clo) >= 2
        shutil.rmtree(scratch, ignore_errors=True)
        return res

    def multipath(self, clo, deps):
        paths = {}

        def count(u, seen):
            if u in seen:
                return
            for v in deps.get(u, []):
                paths[v] = paths.get(v, 0) + 1
        for u in clo:
            count(u, set())
        return any(c > 1 for c in paths.values())

    def transcript(self, res):
        out = []
        for t in res.transcript:
            if t[0] == "conf":
                out += ["--- config ---"] + ["    " + l for l in t[1].split("\n")]
            elif t[0] == "events":
                out += ["> lifecycle events:"] + ["    " + e for e in t[1]]
            else:
                out.append("> [%s] %s" % (t[0], json.dumps(t[1])))
        return out

    def shrink(self, plan, pred, budget):
        cur = copy.deepcopy(plan)
        # drop edges
        for m in list(cur["deps"]):
            j = 0
            while j < len(cur["deps"][m]) and budget[0] > 0:
                c = copy.deepcopy(cur)
                del c["deps"][m][j]
                budget[0] -= 1
                if pred(c):
                    cur = c
                else:
                    j += 1
        # drop listed modules
        j = 0
        while j < len(cur["listed"]) and len(cur["listed"]) > 1 and budget[0] > 0:
            c = copy.deepcopy(cur)
            del c["listed"][j]
            budget[0] -= 1
            if pred(c):
                cur = c
            else:
                j += 1
        for m in sorted(cur.get("variant", {})):
            if cur["variant"][m] and budget[0] > 0:
                c = copy.deepcopy(cur)
                c["variant"][m] = ""
                budget[0] -= 1
                if pred(c):
                    cur = c
        for m in sorted(cur.get("anti") or {}):
            j = 0
            while j < len(cur["anti"][m]) and budget[0] > 0:
                c = copy.deepcopy(cur)
                del c["anti"][m][j]
                budget[0] -= 1
                if pred(c):
                    cur = c
                else:
                    j += 1
        for m in list(cur.get("backend") or []):
            if budget[0] > 0:
                c = copy.deepcopy(cur)
                c["backend"].remove(m)
                budget[0] -= 1
                if pred(c):
                    cur = c
        if cur.get("fault") and budget[0] > 0:
            c = copy.deepcopy(cur)
            c["fault"] = None
            budget[0] -= 1
            if pred(c):
                cur = c
        return cur


runner.register(ModProfile())
