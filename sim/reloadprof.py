"""reload profile (C17): reload == restart.

Run R starts on the first configuration of a chain, optionally serves some
clients (to completion, or leaves them pending across the reload), reloads to
each later configuration with SIGUSR1, then serves a fixed probe set.  Run F is
a daemon freshly started on the last configuration serving the same probes.
Oracle: `? config` reports agree as sets (retired '-name' entries ignored) and
every probe client's conversation is identical after tag normalisation.
"""
import copy, json, os, random, re
import host as H
import proto
from proto import Exec, render_cfg
from world import Violation
from model import SVC_TYPES, BOOL_TRUE, BOOL_FALSE
from runner import ddmin
import runner

SVCS = ["s0.example.org", "s1.example.org", "S2.Example.Org", "s3.example.org", "s1.example", "s1.example.org.uk"]
RULES = ["r0", "r1", "R2", "r3", "Ra"]


def gen_rule(rnd):
    r = {}
    if rnd.random() < 0.8:
        r["class"] = rnd.choice(["c1", "c2", "c3", "c4"])
    if rnd.random() < 0.4:
        r["hostname"] = rnd.choice(["*.example.org", "h1.*", "*.net", "*"])
    if rnd.random() < 0.3:
        r["username"] = rnd.choice(["joe", "*", "~*", "m?e"])
    if rnd.random() < 0.3:
        r["xreply_ok"] = rnd.choice(SVCS)
    if rnd.random() < 0.25:
        r["address"] = rnd.choice(["10.0.0.0/24", "10.0.0.2/32", "10.0.*", "2001:db8::/32", "*"])
    if rnd.random() < 0.25:
        r["account"] = rnd.choice(["acct*", "oper", "*"])
    if rnd.random() < 0.2:
        r["trust_username"] = rnd.choice(BOOL_TRUE + BOOL_FALSE)
    return r


def gen_tables(rnd):
    svcs = {}
    for _ in range(rnd.randint(0, 3)):
        svcs[rnd.choice(SVCS)] = rnd.choice(SVC_TYPES + ("bogus",) if rnd.random() < 0.1 else SVC_TYPES)
    rules = {}
    for _ in range(rnd.randint(0, 3)):
        rules[rnd.choice(RULES)] = gen_rule(rnd)
    cfg = {"modules": "class", "services": svcs, "rules": rules, "timeout": 0, "logs": []}
    if rnd.random() < 0.2:
        cfg["keycase"] = rnd.randrange(1, 1 << 30)      # some setting names written Capitalised or in CAPITALS, in every file of the chain
    return cfg


def mutate(rnd, cfg, stats):
    c = copy.deepcopy(cfg)
    svcs, rules = c["services"], c["rules"]
    k = rnd.random()
    if k < 0.12:
        # the new file does not mention the section at all (or mentions it empty)
        if rnd.random() < 0.5:
            svcs.clear()
            c["omit_xquery"] = rnd.random() < 0.8
            stats.append("svc_section_omitted" if c["omit_xquery"] else "svc_section_emptied")
        else:
            rules.clear()
            c["omit_class"] = rnd.random() < 0.8
            stats.append("rule_section_omitted" if c["omit_class"] else "rule_section_emptied")
        if rnd.random() < 0.6:
            return c
    if rnd.random() < 0.15:
        # nothing but the letter case of one string of one rule changes (criteria are case-sensitive globs, the
        # class is reported verbatim), possibly right after an edit of the same string by the previous reload
        cands = [(n, kk) for n in sorted(rules) for kk in ("class", "hostname", "username", "account")
                 if isinstance(rules[n].get(kk), str) and rules[n][kk].swapcase() != rules[n][kk]]
        if cands:
            n, kk = rnd.choice(cands)
            v = rules[n][kk]
            rules[n][kk] = rnd.choice([v.upper(), v.title(), v.swapcase(), v.lower() if v.lower() != v else v.upper()])
            stats.append("rule_string_case_changed")
            if rnd.random() < 0.7:
                return c
    if rnd.random() < 0.1:
        # one string of one rule is edited in place to the empty string (an empty criterion is still a criterion:
        # it admits only clients whose field is empty), or from the empty string to a value
        cands = [(n, kk) for n in sorted(rules) for kk in ("class", "hostname", "username", "account", "xreply_ok")
                 if isinstance(rules[n].get(kk), str)]
        if cands:
            n, kk = rnd.choice(cands)
            rules[n][kk] = "" if rules[n][kk] != "" else rnd.choice(["*", "c9", "x*"])
            stats.append("rule_string_blanked_in_place")
            if rnd.random() < 0.7:
                return c
    if rnd.random() < 0.12:
        # an edit that keeps the size of the file: two services exchange their protocols, two rules their classes
        done = False
        if len(svcs) >= 2 and rnd.random() < 0.6:
            a, b = rnd.sample(sorted(svcs), 2)
            if svcs[a] != svcs[b]:
                svcs[a], svcs[b] = svcs[b], svcs[a]
                stats.append("svc_protocols_swapped")
                done = True
        if not done:
            withc = [n for n in sorted(rules) if "class" in rules[n]]
            if len(withc) >= 2:
                a, b = rnd.sample(withc, 2)
                if rules[a]["class"] != rules[b]["class"]:
                    rules[a]["class"], rules[b]["class"] = rules[b]["class"], rules[a]["class"]
                    stats.append("rule_classes_swapped")
                    done = True
        if done and rnd.random() < 0.8:
            return c
    for _ in range(rnd.randint(1, 3)):
        k = rnd.random()
        if k < 0.15 and svcs:
            del svcs[rnd.choice(sorted(svcs))]
            stats.append("svc_removed")
        elif k < 0.35:
            n = rnd.choice(SVCS)
            stats.append("svc_added" if n not in svcs else "svc_proto_changed")
            svcs[n] = rnd.choice(SVC_TYPES)
        elif k < 0.5 and svcs:
            n = rnd.choice(sorted(svcs))
            old = svcs[n]
            if rnd.random() < 0.25:
                svcs[n] = rnd.choice(["dronechek", "bogus", "LOGINX", "none"])      # a word that is no protocol
                stats.append("svc_proto_mistyped_in_place")
            else:
                svcs[n] = rnd.choice([t for t in SVC_TYPES if t != old])
                stats.append("svc_proto_changed")
        elif k < 0.6 and rules:
            del rules[rnd.choice(sorted(rules))]
            stats.append("rule_removed")
        elif k < 0.85 and rules:
            r = rules[rnd.choice(sorted(rules))]
            kk = rnd.random()
            if kk < 0.4:
                r["class"] = rnd.choice([x for x in ["c1", "c2", "c3", "c4", "c5"] if x != r.get("class")])
                stats.append("rule_class_changed")
            elif kk < 0.55 and "class" in r:
                del r["class"]
                stats.append("rule_class_removed")
            else:
                crit = rnd.choice(["hostname", "username", "xreply_ok", "address", "account", "trust_username"])
                if crit in r and rnd.random() < 0.5:
                    del r[crit]
                    stats.append("rule_criterion_removed")
                else:
                    r[crit] = gen_rule(random.Random(rnd.randrange(1 << 30))).get(crit) or {"hostname": "h1.*", "username": "joe", "xreply_ok": SVCS[0],
                                                                                    "address": "10.0.0.0/24", "account": "acct*", "trust_username": "yes"}[crit]
                    stats.append("rule_criterion_changed")
        else:
            n = rnd.choice(RULES)
            stats.append("rule_added" if n not in rules else "rule_replaced")
            rules[n] = gen_rule(rnd)
    return c


def gen_probe(rnd, cid):
    return {"cid": cid, "addr": rnd.choice(["10.0.0.1", "10.0.0.2", "10.0.1.9", "192.168.1.1", "2001:db8:0:1:0:0:0:5", "2001:db9:0:0:0:0:0:1"]),
            "host": rnd.choice(["a.example.org", "h1.net", "zz.org", None, "a.Example.Org", "H1.NET"]),
            "ident": rnd.choice(["joe", "moe", "~joe", "~x", "Joe", "MOE"]), "nick": "N%d" % cid, "claimed": rnd.choice(["claim", "usr"]),
            "real": "Real Name", "pw": rnd.choice(["+x acct1 pw", "+ oper pw", None]),
            "reply": rnd.choice(["OK", "OK acct1:1", "OK oper", "OK", "OK Oper", "OK ACCT1:1"]),
            "order": rnd.sample(["host", "ident", "nick", "pw", "user"], 5)}


def probe_ops(p):
    cid = p["cid"]
    ops = [{"op": "announce", "cid": cid, "addr": p["addr"], "port": 1000 + cid, "laddr": "0::1", "lport": 6667}]
    for e in p["order"]:
        if e == "host":
            ops.append({"op": "cli", "cid": cid, "ev": "N", "arg": p["host"]} if p["host"] else {"op": "cli", "cid": cid, "ev": "d", "arg": None})
        elif e == "ident":
            ops.append({"op": "cli", "cid": cid, "ev": "u", "arg": p["ident"]})
        elif e == "nick":
            ops.append({"op": "cli", "cid": cid, "ev": "n", "arg": p["nick"]})
        elif e == "user":
            ops.append({"op": "cli", "cid": cid, "ev": "U", "arg": [p["claimed"], p["real"]]})
        elif e == "pw" and p["pw"]:
            ops.append({"op": "cli", "cid": cid, "ev": "P", "arg": p["pw"]})
    return ops


def norm(lines):
    out = []
    for l in lines:
        f = l.split(" ")
        if f[0] == "X" and len(f) > 2:
            f[2] = "TAG"
        out.append(" ".join(f))
    return sorted(out)


def serve(ex, p, record, partial=False):
    """Drive one probe client; returns its conversation (list of sorted, tag-normalised output lists)."""
    conv = []
    cid = p["cid"]
    ops = probe_ops(p)
    if partial:
        ops = ops[:max(2, len(ops) - 2)]
    for op in ops:
        n0 = len(ex.res.outputs)
        if not ex.apply(op):
            return conv, False
        conv.append(norm(sum((o or [] for o in ex.res.outputs[n0:]), [])))
    if partial:
        return conv, True
    for _ in range(8):
        inst = ex.w.live.get(cid)
        if inst is None:
            break
        pend = sorted(s for s, a in inst.awaiting.items() if a)
        if not pend:
            break
        n0 = len(ex.res.outputs)
        if not ex.apply({"op": "xreply", "cid": cid, "inst": "cur", "svc": pend[0], "kind": "X", "text": p["reply"]}):
            return conv, False
        conv.append(norm(sum((o or [] for o in ex.res.outputs[n0:]), [])))
    if ex.w.live.get(cid) is not None:
        n0 = len(ex.res.outputs)
        if not ex.apply({"op": "cli", "cid": cid, "ev": "D", "arg": None}):
            return conv, False
        conv.append(["<withdrawn undecided>"] + norm(sum((o or [] for o in ex.res.outputs[n0:]), [])))
    return conv, True


def config_report(ex):
    """-> ((other modules' report lines, {(service, protocols named on its line)}), ok).  The layout of a report
    line is the daemon's business (slot numbers, pending counts, how a retired record is marked): of the xquery
    lines only which known service is named together with which protocol word is kept."""
    n0 = len(ex.res.outputs)
    ok = ex.apply({"op": "config"})
    lines = sum((o or [] for o in ex.res.outputs[n0:]), [])
    other, pairs = [], set()
    names = {n.lower(): n for n in SVCS}
    names.update({"t%02d.example.org" % k: 1 for k in range(48)})
    for l in lines:
        if not l.startswith("A "):
            continue
        if not l.startswith("A xquery"):
            other.append(l)
            continue
        toks = [t.strip("()[],;:'\"").lower() for t in l.split(" ")[2:]]
        svc = [t.lstrip("-") for t in toks if t.lstrip("-") in names]
        protos = tuple(sorted(t for t in toks if t in SVC_TYPES))
        for n in svc:
            pairs.add((n, protos))
    return (sorted(other), pairs), ok


class ReloadProfile:
    name = "reload"

    def gen_run(self, rnd, opts, tier, tag):
        stats = []
        chain = [gen_tables(rnd)]
        for _ in range(rnd.choice([1, 1, 1, 2, 3])):
            chain.append(mutate(rnd, chain[-1], stats))
        if rnd.random() < 0.03:
            # a long operational life: a table of two dozen services of which every reload retires a few and adds a
            # few new ones, a dozen or more times over (slots of the service table are vacated and reused throughout)
            pool = ["t%02d.example.org" % k for k in range(48)]
            cur = gen_tables(rnd)
            cur["services"] = {n: rnd.choice(SVC_TYPES) for n in rnd.sample(pool, rnd.randint(18, 26))}
            chain = [cur]
            for _ in range(rnd.randint(10, 26)):
                c = copy.deepcopy(chain[-1])
                for n in rnd.sample(sorted(c["services"]), min(len(c["services"]), rnd.randint(2, 4))):
                    del c["services"][n]
                free = [n for n in pool if n not in c["services"]]
                for n in rnd.sample(free, min(len(free), rnd.randint(2, 4))):
                    if len(c["services"]) < 30:
                        c["services"][n] = rnd.choice(SVC_TYPES)
                chain.append(c)
            stats.append("long_life_of_the_service_table")
        full_table = False
        if rnd.random() < 0.03:
            # a table that uses every slot the module has (or one fewer), and a reload that replaces a few entries by
            # differently named ones: the places of those that go are needed for those that come
            pool = ["f%02d.example.org" % k for k in range(64)]
            cur = gen_tables(rnd)
            cur["services"] = {n: rnd.choice(SVC_TYPES) for n in rnd.sample(pool, rnd.choice([32, 32, 32, 31]))}
            chain = [cur]
            for _ in range(rnd.choice([1, 1, 2, 3])):
                c = copy.deepcopy(chain[-1])
                gone = rnd.sample(sorted(c["services"]), rnd.choice([1, 1, 2, 3]))
                for n in gone:
                    del c["services"][n]
                free = [n for n in pool if n not in c["services"] and n not in gone]
                for n in rnd.sample(free, len(gone)):
                    c["services"][n] = rnd.choice(SVC_TYPES)
                chain.append(c)
            stats.append("full_table_entries_replaced")
            full_table = True
        if rnd.random() < 0.15:
            # one string of one rule is edited by two successive reloads: first to another value, then in its
            # letter case only (a change detector that remembers the previous value sees only the second kind)
            base = chain[-1]
            cands = [(n, kk) for n in sorted(base["rules"]) for kk in ("class", "hostname", "username", "account")
                     if isinstance(base["rules"][n].get(kk), str)]
            if cands:
                n, kk = rnd.choice(cands)
                c1 = copy.deepcopy(base)
                c1["rules"][n][kk] = rnd.choice({"class": ["c7", "cx"], "hostname": ["*.example.org", "h1.*", "*.invalid"],
                                                 "username": ["joe", "m?e", "j*"], "account": ["acct*", "oper", "op*"]}[kk])
                c2 = copy.deepcopy(c1)
                v = c1["rules"][n][kk]
                c2["rules"][n][kk] = rnd.choice([v.upper(), v.title(), v.swapcase()])
                if rnd.random() < 0.5:
                    c1, c2 = c2, c1
                chain += [c1, c2]
                stats.append("rule_string_edited_then_case_only")
        probes = [gen_probe(rnd, 10 + i) for i in range(rnd.randint(2, 5))]
        pre = [gen_probe(rnd, 50 + i) for i in range(rnd.choice([0, 0, 1, 2]))]
        pending = [gen_probe(rnd, 70 + i) for i in range(rnd.choice([0, 0, 1]))]
        if full_table:
            pre, pending = [], []       # (a retired service that a client still awaits keeps its slot: known finding F22)
        plan = {"profile": "reload", "chain": chain, "probes": probes, "pre": pre, "pending": pending,
                "burst": rnd.choice([1, 1, 1, 2]), "mutations": stats}
        return plan, self.run(plan, tag)

    def session(self, chain, plan, tag, fresh):
        ex = Exec(chain[0], tag=tag, prop="C17")
        ex.nonstop = True
        out = {"config": None, "convs": [], "ok": True, "rejected": False, "notread": False}
        if ex.res.infra:
            out["ok"] = False
            return out, ex.finish()
        if not fresh:
            for p in plan["pre"]:
                serve(ex, p, False)
            for p in plan["pending"]:
                serve(ex, p, False, partial=True)
            for cfg in chain[1:]:
                text = render_cfg(cfg, ex.scratch)
                with open(ex.conf, "w", encoding="latin1") as f:
                    f.write(text)
                try:
                    rep = ex.h.sig("USR1", plan.get("burst", 1))
                except (H.HostDied, H.HostHang):
                    out["ok"] = False
                    return out, ex.finish()
                ex.log("reload", text, rep.lines() + rep.notes)
                if not any(n.startswith("CONFREAD") for n in rep.notes):
                    out["notread"] = True       # the reload signal did not make the daemon read its file at all
                elif not any(n == "CONFREAD 0" for n in rep.notes):
                    out["rejected"] = True
                ex.cfg = cfg
                ex.w.cfg = json.loads(json.dumps(dict(cfg, services=ex.w.cfg["services"], rules=ex.w.cfg.get("rules", {}))))
                ex.w.reconfig(cfg["services"], json.loads(json.dumps(cfg["rules"])))
        if not ex.h.dead:
            out["config"], ok = config_report(ex)
            for p in plan["probes"]:
                if ex.h.dead:
                    out["ok"] = False
                    break
                conv, ok = serve(ex, p, True)
                out["convs"].append(conv)
            for p in plan["pending"]:
                if not fresh and not ex.h.dead and ex.w.live.get(p["cid"]) is not None:
                    ex.apply({"op": "cli", "cid": p["cid"], "ev": "D", "arg": None})
            if not ex.h.dead:
                ex.do_eof()
        return out, ex.finish()

    def run(self, plan, tag):
        chain = plan["chain"]
        R, rr = self.session(chain, plan, tag + "R", False)
        F, rf = self.session([chain[-1]], plan, tag + "F", True)
        res = rr
        res.transcript_f = rf.transcript
        viol = []
        crash = [v for v in rr.viol + rf.viol if v.rule in ("memory-error", "signal", "died", "hang", "unclean-exit", "ub-memory")]
        for v in crash:
            viol.append(Violation(("C17",) + tuple(p for p in v.props if p != "C17"), v.rule, v.detail))
        if not crash and R["notread"]:
            viol.append(Violation("C17", "reload-not-performed", "the reload signal was delivered and the loop ran, but the daemon never read the "
                                  "(changed) configuration file"))
        if not crash and not R["rejected"] and R["ok"] and F["ok"]:
            # every (service, protocol) a fresh daemon reports must be reported after the reload too; what the
            # reloaded daemon lists in addition may be retired records kept while clients still refer to them
            # (whether a removed service is really out of use is decided by the probe conversations below)
            if R["config"][0] != F["config"][0] or not F["config"][1] <= R["config"][1]:
                full = len(R["config"][1]) >= 32 and R["config"][0] == F["config"][0]
                viol.append(Violation("C17", "config-report", "%safter the reload the daemon reports %r, a fresh daemon on the new file reports %r" %
                                      ("[service table full: all 32 slots are taken by configured services and by retired ones that clients "
                                       "still await, so a newly added service was refused] " if full else "",
                                       (R["config"][0], sorted(R["config"][1])), (F["config"][0], sorted(F["config"][1])))))
            else:
                for i, (a, b) in enumerate(zip(R["convs"], F["convs"])):
                    if a != b:
                        j = next((j for j in range(min(len(a), len(b))) if a[j] != b[j]), min(len(a), len(b)))
                        viol.append(Violation("C17", "probe-differs", "probe client %d is treated differently after the reload than by a fresh daemon "
                                              "on the new file, at its step %d: reloaded %r, fresh %r" %
                                              (plan["probes"][i]["cid"], j, a[j] if j < len(a) else None, b[j] if j < len(b) else None)))
                        break
        res.viol = viol + [v for v in rr.viol if v not in crash and "C17" not in v.props]
        res.hash = H.hashlib.sha256(((rr.hash or "") + (rf.hash or "")).encode()).hexdigest()
        res.extra = dict(getattr(rr, "extra", {}))
        res.extra["reloads"] = len(chain) - 1
        res.extra["valid_file_rejected"] = int(R["rejected"])
        res.extra["probe_conversations_compared"] = len(R["convs"])
        for m in plan.get("mutations", []):
            res.extra["mut_" + m] = res.extra.get("mut_" + m, 0) + 1
        res.nontrivial = (not R["rejected"]) and len(R["convs"]) > 0 and chain[0] != chain[-1] and \
            any(l and l != ["<withdrawn undecided>"] for c in F["convs"] for l in c)
        res.steps += rf.steps
        return res

    def transcript(self, res):
        from profiles import fmt_transcript
        out = ["===== run R (reloaded) ====="] + fmt_transcript(res)
        if getattr(res, "transcript_f", None):
            class Rr:
                pass
            r = Rr()
            r.transcript = res.transcript_f
            r.exit = None
            out += ["===== run F (fresh daemon on the last file) ====="] + fmt_transcript(r)
        return out

    def shrink(self, plan, pred, budget):
        cur = copy.deepcopy(plan)
        for key in ("pre", "pending"):
            if cur[key] and budget[0] > 0:
                c = copy.deepcopy(cur)
                c[key] = []
                budget[0] -= 1
                if pred(c):
                    cur = c
        if len(cur["probes"]) > 1:
            cur["probes"] = ddmin(cur["probes"], lambda ps: bool(ps) and pred(dict(cur, probes=ps)), budget)
        # shorten the chain (keep first and last)
        while len(cur["chain"]) > 2 and budget[0] > 0:
            c = copy.deepcopy(cur)
            del c["chain"][1]
            budget[0] -= 1
            if pred(c):
                cur = c
            else:
                break
        # drop table entries that exist identically in every configuration
        for sect in ("services", "rules"):
            for name in sorted(set().union(*[set(c[sect]) for c in cur["chain"]])):
                if budget[0] <= 0:
                    break
                c = copy.deepcopy(cur)
                for cfg in c["chain"]:
                    cfg[sect].pop(name, None)
                budget[0] -= 1
                if pred(c):
                    cur = c
        if cur.get("burst", 1) > 1 and budget[0] > 0:
            c = dict(cur, burst=1)
            budget[0] -= 1
            if pred(c):
                cur = c
        return cur


runner.register(ReloadProfile())
