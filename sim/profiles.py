"""Profiles (how a run is generated, replayed, minimised) and the per-property
check specifications."""
import json, copy
import runner, proto
from runner import ddmin


def fmt_transcript(res):
    out = []
    for t in res.transcript:
        if t[0] == "conf":
            out.append("--- config file ---")
            out += ["    " + l for l in t[1].rstrip("\n").split("\n")]
            out.append("-------------------")
            continue
        kind, inp, lines = t
        out.append("> [%s] %s" % (kind, inp if isinstance(inp, str) else json.dumps(inp)))
        for l in lines:
            out.append("    < %s" % l)
    ex = res.exit
    if ex is not None:
        out.append("exit: rc=%s exit_status=%s teardown=%s asan=%s leak=%s ubsan=%d" %
                   (ex.rc, ex.exit_status, ex.teardown, ex.asan, ex.leak, len(ex.ubsan)))
        if ex.asan or ex.leak or ex.signal:
            out += ["    ! " + l for l in ex.stderr.split("\n")[:40]]
    return out


class ProtoProfile:
    name = "proto"

    def gen_run(self, rnd, opts, tier, tag):
        o = dict(opts)
        prop = o.get("prop")
        leaks = bool(o.pop("leaks", False))
        if tier == "thorough" and "steps_thorough" in o:
            o["steps"] = rnd.choice(o["steps_thorough"])
            o["clients"] = rnd.choice(o.get("clients_thorough", [40]))
        elif "steps_quick" in o:
            o["steps"] = rnd.choice(o["steps_quick"])
            o["clients"] = rnd.choice(o.get("clients_quick", [40]))
        if o.get("fault_free_every") and rnd.random() < 1.0 / o["fault_free_every"]:
            o["no_faults"] = True
        plan, res = proto.run_generated(rnd, o, leaks=leaks, tag=tag)
        res.nontrivial = self.nontrivial(prop, res)
        return plan, res

    def nontrivial(self, prop, res):
        x = getattr(res, "extra", {})
        v = sum(res.verdicts.values()) if res.verdicts else 0
        if prop == "C06":
            return x.get("queries", 0) > 0
        if prop == "C05":
            return (res.verdicts.get("R", 0) + res.verdicts.get("k", 0) + x.get("challenges", 0)) > 0
        if prop == "C09":
            return x.get("client_lines", 0) > 0
        if prop == "C10":
            return x.get("in_use_checks", 0) > 0 and v > 0
        if prop == "C11":
            return x.get("class_evals", 0) > 0
        return v > 0

    def run(self, plan, tag):
        res = proto.run_plan(plan, tag=tag)
        res.nontrivial = self.nontrivial(plan.get("prop"), res)
        return res

    def transcript(self, res):
        return fmt_transcript(res)

    def shrink(self, plan, pred, budget):
        cur = copy.deepcopy(plan)

        def with_ops(ops):
            c = dict(cur)
            c["ops"] = ops
            return c
        cur["ops"] = ddmin(cur["ops"], lambda ops: pred(with_ops(ops)), budget)
        # simplify delivery decorations
        for i, op in enumerate(list(cur["ops"])):
            if budget[0] <= 0:
                break
            if any(k in op for k in ("seg", "crlf", "rdf")):
                c = copy.deepcopy(cur)
                for k in ("seg", "crlf", "rdf"):
                    c["ops"][i].pop(k, None)
                budget[0] -= 1
                if pred(c):
                    cur = c
        # simplify the configuration entry-wise
        for sect in ("logs", "rules", "services"):
            items = cur["cfg"].get(sect)
            if not items:
                continue
            keys = list(range(len(items))) if isinstance(items, list) else list(items)
            for k in keys:
                if budget[0] <= 0:
                    break
                c = copy.deepcopy(cur)
                if isinstance(items, list):
                    c["cfg"][sect] = [x for j, x in enumerate(cur["cfg"][sect]) if j != k and j < len(cur["cfg"][sect])]
                    if len(c["cfg"][sect]) == len(cur["cfg"][sect]):
                        continue
                else:
                    if k not in c["cfg"][sect]:
                        continue
                    del c["cfg"][sect][k]
                budget[0] -= 1
                if pred(c):
                    cur = c
        if cur["cfg"].get("timeout") and budget[0] > 0:
            c = copy.deepcopy(cur)
            c["cfg"]["timeout"] = 0
            budget[0] -= 1
            if pred(c):
                cur = c
        if cur.get("leaks") and budget[0] > 0:
            c = copy.deepcopy(cur)
            c["leaks"] = False
            budget[0] -= 1
            if pred(c):
                cur = c
        # a second pass over ops often helps after config simplification
        if budget[0] > 10:
            cur["ops"] = ddmin(cur["ops"], lambda ops: pred(with_ops(ops)), budget)
        return cur


runner.register(ProtoProfile())


class ProtoBurstProfile:
    """C10: protocol runs (one input line per step, every monitor on) mixed with burst runs: a recorded session
    (whose `in use` figures the protocol monitors have already checked against the model) is delivered once a
    line per read and once with several lines sharing a read(); no crash, no sanitizer report, clean exit, and
    the same `in use` figures (bytes profile, 'indiff'/'robust' modes).  Plans carry their own profile name."""
    name = "protoburst"

    def _sub(self, plan):
        return runner.profile("bytes" if plan.get("profile") == "bytes" else "proto")

    def gen_run(self, rnd, opts, tier, tag):
        if rnd.random() < opts.get("p_burst", 0.15):
            plan, res = runner.profile("bytes").gen_run(rnd, {"prop": opts.get("prop", "C10")}, tier if opts.get("prop") == "C08" else "quick", tag)
            res.extra = dict(getattr(res, "extra", {}) or {})
            res.extra["burst_runs"] = 1
            return plan, res
        return runner.profile("proto").gen_run(rnd, opts, tier, tag)

    def run(self, plan, tag):
        return self._sub(plan).run(plan, tag)

    def transcript(self, res):
        return fmt_transcript(res)

    def shrink(self, plan, pred, budget):
        return self._sub(plan).shrink(plan, pred, budget)


runner.register(ProtoBurstProfile())

_REAL = ("All of src/*.c and modules/*.c run as shipped inside simhost (ASan+UBSan build of /repo's working tree); "
         "libevent is real; the IRC server, the authorization services and the operator are a seeded model.")
_ASSUME = [
    "The environment model covers what the daemon's parser documents (shipped tests/code-coverage.pl semantics); inputs whose treatment the property leaves open are not generated (DESIGN 4, rule 3).",
    "Sampling, not proof: bounded histories (<=8 concurrent clients, <=4 services, <=6 rules, <=400 steps unless stated).",
    "Only libevent 2.1 / epoll in EVLOOP_NONBLOCK stepping is exercised.",
]


def _spec(profile, rule, quick_runs, thorough_runs, opts=None, quick_s=75, thorough_s=900, expect_probes=(), assumptions=()):
    return {"profile": profile, "rule": rule, "quick_runs": quick_runs, "thorough_runs": thorough_runs,
            "opts": opts or {}, "quick_s": quick_s, "thorough_s": thorough_s,
            "expect_probes": list(expect_probes), "assumptions": _ASSUME + list(assumptions)}


_GEN = ("Each run: seeded swarm parameters (module set, 0-4 services over the 4 protocols, 0-6 class rules, timeout, "
        "id universe, field-length mode, fault-kind subset, reply policy), then an online seeded scheduler interleaves "
        "client scripts, service replies, clock advances, probes, junk and reloads; ends with a fault-free drain and EOF. ")

PROPS = {
    "C01": _spec("protoburst", _GEN + "12% of the runs are burst runs (a recorded, already judged session delivered again with several lines per read: nothing may follow a verdict that the line-per-read delivery did not have). Non-trivial = at least one verdict (D/R/k) was issued; distinct = distinct SHA-256 of the full command/reply history.",
                 3000, 250000, {"fault_free_every": 8, "p_burst": 0.12},
                 expect_probes=["reannounce_live", "xr_stale", "xr_dup", "hurry_after_softdone", "registered_early", "reply_after_timeout"]),
    "C02": _spec("protoburst", _GEN + "8% of the runs are burst runs, in which a recorded, already judged session is also delivered with all its lines waiting on the channel when the daemon enters its event loop (same treatment required). Non-trivial = at least one verdict; acceptance conditions are evaluated at every D/R line.",
                 3000, 250000, {"fault_free_every": 8, "p_burst": 0.08},
                 expect_probes=["timer_fire", "timeout_with_query_outstanding", "ok_empty_account", "hurry", "bang_dropped"]),
    "C03": _spec("proto", _GEN + "Non-trivial = at least one verdict; the progress obligation is evaluated for every live client after every step.",
                 3000, 250000, {"fault_free_every": 8},
                 expect_probes=["reply_after_timeout", "second_ok_under_bang", "bang_taken_with_stamp", "bang_dropped", "challenge_response", "softdone_then_timeout"]),
    "C05": _spec("proto", _GEN + "Services always configured. Non-trivial = a run with at least one R verdict, refusal or relayed challenge.",
                 3000, 250000, {"fault_free_every": 8, "modules": None, "min_svc": 1},
                 expect_probes=["xr_no", "xr_again", "xr_more", "second_vouch", "dronecheck_ok_account", "xr_unlinked"]),
    "C06": _spec("proto", _GEN + "Services always configured; length modes short/limit/over. Non-trivial = at least one X query observed and rebuilt from the model.",
                 3000, 250000, {"fault_free_every": 8, "min_svc": 1},
                 expect_probes=["pass_illshaped", "pass_repeat", "challenge_response", "hurry"]),
    "C09": _spec("proto", _GEN + "Logs sections on in 80% of runs, all address families and spellings, warning/error-producing junk. Non-trivial = at least one client-directed line validated.",
                 3000, 250000, {"fault_free_every": 8, "p_logs": 0.8},
                 expect_probes=["reload_failed", "junk"]),
    "C10": _spec("protoburst", _GEN + "Long histories over 2-6 ids (6%: crowds of up to 70 live requests) with LeakSanitizer on, stats probe p~0.2, structural audit "
                 "of the request table; 15% of the runs are burst runs: a recorded session delivered a line per read and again with several lines per "
                 "read (same in-use figures, no crash, clean exit). Non-trivial = in-use was compared at least once and a verdict happened.",
                 1200, 60000, {"fault_free_every": 8, "leaks": True, "steps_quick": [60, 200, 600, 1500], "clients_quick": [8, 40, 150, 400],
                               "steps_thorough": [200, 1500, 6000, 20000], "clients_thorough": [40, 400, 2000, 5000], "w_audit": 0.4},
                 expect_probes=["reannounce_live", "registered_early", "disconnect_while_awaiting", "timer_fire"]),
    "C11": _spec("proto", _GEN + "Class module always loaded, 0-6 rules with case-mixed names and all criteria kinds. Non-trivial = at least one acceptance evaluated against a non-empty rule table.",
                 3000, 250000, {"fault_free_every": 8, "modules": "class", "p_reply": 0.9}),
    "C04": _spec("stray", "Each evaluation is a pair of runs: a generated history with id reuse (A) and the same history with ONE stray reply/unlinked "
                 "line inserted at a random position (B): stale tag of a departed instance whose id is live again / free, syntactically broken tag, "
                 "unknown service, service that already answered or was never queried, too few parameters; all reply kinds. Oracle: B's output is "
                 "empty at the stray step and byte-identical to A's at every other step through the final stats. Non-trivial = the stray line "
                 "resolved and the model classifies it as 'must be ignored' (pairs where it would be a genuine reply are skipped and counted).",
                 1100, 60000, {}, quick_s=80),
    "C07": _spec("interleave", "Each evaluation: 2-6 client conversations (each generated online in a solo run, with its own service replies and, "
                 "when timeouts are on, its own expiry point) on distinct ids, merged under two seeded interleavings that preserve each client's "
                 "order (30% of quick and all thorough evaluations also against the solo runs). Oracle: every client's projection (its events -> "
                 "sorted lines naming it or its tag, tag normalised) is identical in all schedules, and no step about one client prints anything "
                 "about another. Non-trivial = >=2 conversations, two different schedules, at least one verdict.",
                 1400, 40000, {}, quick_s=85),
    "C08": _spec("protoburst", "65% of the runs are byte-stream runs: Three modes per run: robust (mutated/random byte streams from a recorded valid session, random read boundaries incl. >4096 "
                 "pending, EINTR/EAGAIN on reads, EOF at an arbitrary byte; oracle: no sanitizer report/signal/hang, exit 0, teardown), indiff (A line "
                 "per read vs B same bytes segmented+CRLF+read faults vs C junk interleaved; oracle: outputs equal, junk prints only notices), prefix "
                 "(every prefix of a short stream then EOF). The other 35% are protocol runs (timers, reloads, stats probes, junk lines: "
                 "a crash, sanitizer report, hang, unclean exit or output for a junk line is a C08 violation there too). "
                 "Non-trivial = the daemon produced protocol output beyond the banner.",
                 1200, 100000, {"p_burst": 0.65, "fault_free_every": 8}, quick_s=80),
    "C14": _spec("conf", "Each run: 1-6 settings registered with logging hooks (before the first load or later), 2-6 valid files over a small name/type "
                 "universe rendered in varied layouts, and after most of them damaged loads: truncation at a random byte (thorough: every byte of sampled "
                 "files), 1-4 byte flips, slice deletion/duplication, random bytes, empty file, missing file, failing fread - always on top of a live "
                 "configuration. Oracle: the load returns, ASan clean; if it reported an error the dump of the live tree is identical before/after and no "
                 "hook ran. Non-trivial = at least one damaged load was rejected and compared.",
                 3000, 100000, {"every_cut": True}, quick_s=80),
    "C15": _spec("conf", "Each run: 2-6 valid files (values of all four node kinds, nested objects, names changing kind between files, identical reloads), "
                 "registrations before the first load and after the k-th, with and without defaults (NULL default, empty list in the file, case-only "
                 "differences). Oracle: after every load and registration the dump equals the reference model (file value else default; unregistered "
                 "leftovers gone), required hooks ran, identical reload notifies nobody, ASan clean. Non-trivial = >=2 loads compared.",
                 3000, 100000, {}, quick_s=80),
    "C17": _spec("reload", "Each evaluation is two daemon lifetimes: R starts on the first of a chain of 2-4 configurations (service table over 4 names x "
                 "4 protocols, rule table over 5 names x 7 criteria), optionally serves clients to completion and leaves one pending, reloads through the "
                 "chain (entries added, removed, changed in place, remove-then-add; single or double SIGUSR1) and serves 2-5 probe clients; F is a fresh "
                 "daemon on the last configuration serving the same probes. Oracle: '? config' reports equal as sets (retired '-' entries ignored) and "
                 "every probe conversation identical after tag normalisation. Non-trivial = first and last configuration differ and a probe produced output.",
                 2500, 60000, {}, quick_s=80),
    "C18": _spec("logs", "Each run: a logs section over facilities {*, core, config, va, vb}, severity expressions (names, comma lists, the five "
                 "operators, *, unknown names, empty items, missing '.', repeated keys) mapping to 1-3 of 4 files as a destination or a list; then 1-4 "
                 "reload steps (new section, identical, permuted/shortened, damaged file, burst of signals, messages emitted between two signals). After "
                 "each step one nonce line per (facility, severity != fatal) is emitted through log_message(); simulated clock advances between steps. "
                 "Oracle over the files: nonce present iff the section in force maps it there, never more copies than mappings, line format, facility/"
                 "severity attribution, simulated time stamp, trailing newline. Non-trivial = a reload happened and at least one pair was routed.",
                 4000, 80000, {}, quick_s=80),
    "C20": _spec("modules", "Each run: a dependency graph over 2-6 stub modules (random, chain, fork, diamond, dense; 20% with a self-loop or back edge), a "
                 "random subset listed in core.modules in random order (sometimes twice), and in 20% one module's file missing or not an ELF object. "
                 "Oracle over the recorded lifecycle history and exit status (see DESIGN 5/C20). Non-trivial = the closure of the listed modules has >= 2 modules.",
                 4000, 80000, {}, quick_s=80),
}
