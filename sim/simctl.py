#!/usr/bin/env python3
"""simctl.py check <ID> --tier quick|thorough | replay <file> | run <ID> <idx>

Entry point of the verification machinery (DESIGN.md section 13)."""
import os, sys, json, argparse, subprocess, random

HERE = os.path.dirname(os.path.abspath(__file__))
sys.path.insert(0, HERE)
import runner
import profiles     # registers all profiles, defines PROPS
import diffprof, bytesprof, confprof, reloadprof, logsprof, modprof


def build():
    # VERIF_REPO / VERIF_BUILD let a scratch copy of the repository be checked (seeded changes, background
    # sweeps) without touching /repo; the registered commands never set them, so they build /repo's working tree.
    cmd = ["make", "-C", "/verif", "build"]
    if os.environ.get("VERIF_REPO"):
        cmd.append("REPO=" + os.environ["VERIF_REPO"])
    if os.environ.get("VERIF_BUILD"):
        cmd.append("B=" + os.environ["VERIF_BUILD"])
    if "VERIF_SAN" in os.environ:       # e.g. VERIF_SAN= for a plain build to run under valgrind
        cmd.append("SAN=" + os.environ["VERIF_SAN"])
    cp = subprocess.run(cmd, capture_output=True, text=True)
    if cp.returncode != 0:
        sys.stdout.write(cp.stdout[-3000:])
        sys.stderr.write(cp.stderr[-3000:])
        print("INFRA: build of simhost from /repo's working tree failed")
        sys.exit(2)


def main():
    ap = argparse.ArgumentParser()
    sub = ap.add_subparsers(dest="cmd", required=True)
    c = sub.add_parser("check")
    c.add_argument("prop")
    c.add_argument("--tier", default=os.environ.get("VERIF_TIER", "quick"), choices=["quick", "thorough"])
    c.add_argument("--seed", default=None)
    c.add_argument("--jobs", type=int, default=None)
    r = sub.add_parser("replay")
    r.add_argument("file")
    r.add_argument("--quiet", action="store_true")
    g = sub.add_parser("run")
    g.add_argument("prop")
    g.add_argument("idx", type=int)
    g.add_argument("--seed", default=None)
    g.add_argument("--tier", default="quick")
    hh = sub.add_parser("hashes")
    hh.add_argument("prop")
    hh.add_argument("--n", type=int, default=200)
    hh.add_argument("--jobs", type=int, default=16)
    hh.add_argument("--seed", type=int, default=1)
    dd = sub.add_parser("determinism")
    dd.add_argument("props", nargs="*")
    dd.add_argument("--n", type=int, default=300)
    a = ap.parse_args()

    if a.cmd == "hashes":
        for i, h in enumerate(runner.hashes(a.prop, profiles.PROPS[a.prop], a.seed, a.n, a.jobs)):
            print(i, h)
        return

    if a.cmd == "determinism":
        build()
        bad = 0
        for prop in (a.props or sorted(profiles.PROPS)):
            outs = []
            for (hs, jobs) in (("0", 16), ("12345", 5), ("777", 16)):
                e = dict(os.environ)
                e["PYTHONHASHSEED"] = hs
                cp = subprocess.run([sys.executable, os.path.abspath(__file__), "hashes", prop, "--n", str(a.n), "--jobs", str(jobs)],
                                    capture_output=True, text=True, env=e)
                outs.append(cp.stdout)
            same = outs[0] == outs[1] == outs[2] and outs[0].count("\n") == a.n
            print("%s: %d seeds x 3 executions (PYTHONHASHSEED 0/12345/777, 16/5/16 workers): %s" %
                  (prop, a.n, "identical" if same else "DIFFER"))
            if not same:
                bad += 1
                l0, l1, l2 = [o.split("\n") for o in outs]
                for x, y, z in zip(l0, l1, l2):
                    if not (x == y == z):
                        print("   ", x, "|", y, "|", z)
                        break
        sys.exit(2 if bad else 0)

    if a.cmd == "check":
        build()
        spec = profiles.PROPS[a.prop]
        seed = a.seed if a.seed is not None else os.environ.get("VERIF_SEED", "1")
        try:
            seed = int(seed)
        except ValueError:
            seed = int.from_bytes(seed.encode()[:6], "big")
        print("VERIF_SEED=%d property=%s tier=%s profile=%s" % (seed, a.prop, a.tier, spec["profile"]))
        sys.stdout.flush()
        sys.exit(runner.run_check(a.prop, spec, a.tier, seed, a.jobs))

    if a.cmd == "replay":
        if not a.quiet:
            build()
        doc = json.load(open(a.file))
        p = runner.profile(doc["profile"])
        res = p.run(doc["plan"], "replay")
        hit = runner.has_key(res, doc["property"], doc["rule"])
        if not a.quiet:
            for line in p.transcript(res):
                print(line)
            for v in res.viol:
                print("VIOL", v)
            print("history hash %s (recorded %s)" % (res.hash, doc.get("expect_hash")))
        if hit:
            print("VIOLATION property=%s replay=%s" % (doc["property"], a.file))
            sys.exit(1)
        print("replay of %s: violation %s/%s did NOT occur" % (a.file, doc["property"], doc["rule"]))
        sys.exit(0)

    if a.cmd == "run":
        build()
        spec = profiles.PROPS[a.prop]
        seed = int(a.seed if a.seed is not None else os.environ.get("VERIF_SEED", "1"))
        p = runner.profile(spec["profile"])
        opts = dict(spec.get("opts", {}))
        opts["prop"] = a.prop
        rnd = random.Random("%s/%s/%s/%d" % (seed, spec["profile"], a.prop, a.idx))
        plan, res = p.gen_run(rnd, opts, a.tier, "one")
        for line in p.transcript(res):
            print(line)
        for v in res.viol:
            print("VIOL", v)
        print("hash", res.hash, "infra", res.infra)


if __name__ == "__main__":
    main()
