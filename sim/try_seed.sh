#!/bin/sh
# try_seed.sh <worktree> <property> [tier]: run the property's check against a scratch worktree that has a
# seeded change applied (private build/evidence/findings directories inside the worktree; /repo untouched).
wt=$1; prop=$2; tier=${3:-quick}
VERIF_REPO=$wt VERIF_BUILD=$wt/_vb VERIF_EVIDENCE_DIR=$wt/_ev VERIF_FINDINGS_DIR=$wt/_fi \
  python3 /verif/sim/simctl.py check $prop --tier $tier > $wt/_check_$prop.log 2>&1
rc=$?
echo "check $prop on $wt: rc=$rc"
grep -E "^(VIOLATION|KNOWN|INFRA)" $wt/_check_$prop.log | head -5
tail -1 $wt/_check_$prop.log | cut -c1-250
