"""Lock-step driver for one simhost process (= one daemon lifetime).

The daemon only runs while the controller waits for a reply, and vice versa,
so controller + simhost behave as one sequential program.  Every command and
every reply is folded into a SHA-256 "history hash": same plan => same hash.
"""
import os, sys, subprocess, fcntl, select, hashlib, shutil, re, signal, time

BUILD = os.environ.get("VERIF_BUILD", "/verif/build")
SIMHOST = os.path.join(BUILD, "simhost")
MODS = os.path.join(BUILD, "mods")
STUBS = os.path.join(BUILD, "stubs")
STEP_TIMEOUT = float(os.environ.get("VERIF_STEP_TIMEOUT", "30"))
# A step that burns this much CPU in the daemon process without answering is a hang whatever the load of the
# machine (an ordinary step costs microseconds to milliseconds); a step that stays blocked without using CPU is a
# hang after STEP_TIMEOUT of wall time.
HANG_CPU = float(os.environ.get("VERIF_HANG_CPU", "6"))
_TICK = os.sysconf("SC_CLK_TCK")
try:
    import ctypes
    _LIBC = ctypes.CDLL(None)
except Exception:
    _LIBC = None


def _cpu_of(pid):
    try:
        with open("/proc/%d/stat" % pid, "rb") as f:
            t = f.read().rsplit(b")", 1)[1].split()
        return (int(t[11]) + int(t[12])) / _TICK
    except (OSError, IndexError, ValueError):
        return None


class HostDied(Exception):
    pass


class HostHang(Exception):
    pass


def pct_dec(s):
    """decode simhost's nullable percent encoding ('-' = None, '=...' = text)"""
    if s == "-":
        return None
    if s.startswith("="):
        s = s[1:]
    return re.sub(r"%([0-9a-f]{2})", lambda m: chr(int(m.group(1), 16)), s)


def pct_enc(s):
    if s is None:
        return "-"
    out = ["="]
    for ch in s:
        c = ord(ch)
        if c <= 32 or c >= 127 or ch in "%/;":
            out.append("%%%02x" % c)
        else:
            out.append(ch)
    return "".join(out)


class Reply:
    __slots__ = ("status", "out", "notes")

    def __init__(self, status, out, notes):
        self.status = status
        self.out = out          # bytes the daemon wrote to its stdout
        self.notes = notes      # list of str

    def lines(self):
        """complete output lines (latin-1 text, newline stripped)"""
        t = self.out.decode("latin1")
        ls = t.split("\n")
        if ls and ls[-1] == "":
            ls.pop()
        return ls


class Exit:
    def __init__(self):
        self.rc = None
        self.exit_status = None     # "EXIT<n>" as reported by the host's main, if reached
        self.teardown = False
        self.dispatch = None
        self.stderr = ""
        self.notes = []
        self.out = b""
        self.asan = None            # first AddressSanitizer error class, if any
        self.asan_frames = []
        self.ubsan = []             # list of (kind-ish text)
        self.leak = False
        self.signal = None


class Host:
    def __init__(self, conf_path, scratch, env=None, leaks=False, cwd=None, extra_arg=None):
        self.scratch = scratch
        self.hash = hashlib.sha256()
        self.nsteps = 0
        self.dead = False
        self.exit = None
        c2h_r, c2h_w = os.pipe()
        h2c_r, h2c_w = os.pipe()
        hi_r = fcntl.fcntl(c2h_r, fcntl.F_DUPFD, 30)
        hi_w = fcntl.fcntl(h2c_w, fcntl.F_DUPFD, 30)

        def pre():
            # runaway output (a daemon looping while it logs) must not fill the scratch file system: the process
            # dies with SIGXFSZ, which every profile reports as a crash
            import resource
            resource.setrlimit(resource.RLIMIT_FSIZE, (256 << 20, 256 << 20))
            try:        # a daemon that spins must not outlive a worker that is terminated (PR_SET_PDEATHSIG, SIGKILL)
                _LIBC.prctl(1, 9, 0, 0, 0)
            except Exception:
                pass
            os.dup2(hi_r, 3)
            os.dup2(hi_w, 4)
            for fd in (hi_r, hi_w):
                if fd > 4:
                    os.close(fd)

        e = {k: v for k, v in os.environ.items()
             if k in ("PATH", "HOME", "LANG", "LC_ALL", "TMPDIR")}
        e["ASAN_OPTIONS"] = ("exitcode=77:abort_on_error=0:handle_abort=1:detect_leaks=%d:"
                             "malloc_context_size=12:detect_stack_use_after_return=0" % (1 if leaks else 0))
        e["LSAN_OPTIONS"] = "exitcode=78:suppressions=/verif/sim/lsan.supp:print_suppressions=0"
        e["UBSAN_OPTIONS"] = "print_stacktrace=0:halt_on_error=0"
        e["TZ"] = "UTC"
        if env:
            e.update(env)
        self.errpath = os.path.join(scratch, "stderr.%d" % id(self))
        self.errf = open(self.errpath, "wb")
        # relative path: the daemon prints the file name in parse errors and the
        # history hash must not depend on the scratch directory's name
        rel = os.path.relpath(conf_path, cwd or scratch)
        # VERIF_HOST_PREFIX="valgrind -q --error-exitcode=77" with a plain build (make build SAN= B=<dir>,
        # VERIF_BUILD=<dir>) runs the same histories under memcheck: uninitialised reads, which ASan does not see
        args = os.environ.get("VERIF_HOST_PREFIX", "").split() + [SIMHOST, rel] + ([extra_arg] if extra_arg else [])
        self.p = subprocess.Popen(args, preexec_fn=pre, close_fds=False, stdin=subprocess.DEVNULL,
                                  stdout=subprocess.DEVNULL, stderr=self.errf, env=e,
                                  cwd=cwd or scratch)
        for f in (c2h_r, h2c_w, hi_r, hi_w):
            os.close(f)
        self.w = c2h_w
        self.r = h2c_r
        self.buf = b""
        self.ready = None
        try:
            self.ready = self._read_reply()
        except HostDied:
            self.ready = None

    # ------------------------------------------------------------ low level
    def _fill(self):
        t0 = time.time()
        c0 = None
        while True:
            rl, _, _ = select.select([self.r], [], [], 0.5)
            if rl:
                break
            c = _cpu_of(self.p.pid)
            if c0 is None:
                c0 = c
            elif c is not None and c0 is not None and c - c0 > HANG_CPU:
                raise HostHang("no reply after %.0fs of CPU" % HANG_CPU)
            if time.time() - t0 > STEP_TIMEOUT:
                raise HostHang("no reply within %.0fs" % STEP_TIMEOUT)
        d = os.read(self.r, 1 << 16)
        if not d:
            raise HostDied()
        self.buf += d

    def _read_reply(self):
        while b"\n" not in self.buf:
            self._fill()
        hdr, self.buf = self.buf.split(b"\n", 1)
        f = hdr.split()
        n, m = int(f[1]), int(f[2])
        while len(self.buf) < n + m:
            self._fill()
        out, notes = self.buf[:n], self.buf[n:n + m]
        self.buf = self.buf[n + m:]
        self.hash.update(hdr + b"\n" + out + notes)
        nl = notes.decode("latin1").split("\n")
        if nl and nl[-1] == "":
            nl.pop()
        return Reply(f[0].decode(), out, nl)

    def cmd(self, header, payload=b""):
        if self.dead:
            raise HostDied()
        if isinstance(header, str):
            header = header.encode("latin1")
        msg = header + b"\n" + payload
        self.hash.update(msg)
        try:
            os.write(self.w, msg) if len(msg) < 60000 else self._write_all(msg)
            rep = self._read_reply()
        except (BrokenPipeError, HostDied):
            self.dead = True
            raise HostDied()
        self.nsteps += 1
        if rep.status == "BREAK":
            self.dead = True
        return rep

    def _write_all(self, msg):
        # large payloads: the host reads the payload before acting, so a
        # blocking write cannot deadlock
        fl = fcntl.fcntl(self.w, fcntl.F_GETFL)
        fcntl.fcntl(self.w, fcntl.F_SETFL, fl & ~os.O_NONBLOCK)
        off = 0
        while off < len(msg):
            off += os.write(self.w, msg[off:off + 65536])

    # ------------------------------------------------------------- commands
    def feed(self, data):
        return self.cmd(b"FEED %d" % len(data), data)

    def adv(self, ns):
        return self.cmd("ADV %d" % ns)

    def wall(self, ns):
        return self.cmd("WALL %d" % ns)

    def sig(self, name="USR1", count=1):
        return self.cmd("SIG %-4s%d" % (name, count))

    def raise_only(self, name="USR1"):
        return self.cmd("RAISE %s" % name)

    def rdfault(self, kind="EAGAIN", count=1):
        return self.cmd("RDFAULT %-5s %d" % (kind, count))

    def freadfault(self):
        return self.cmd("FREADFAULT")

    def peerstall(self):
        """The server is slow to read during the next step (socket-pair mode only)."""
        return self.cmd("PEERSTALL")

    def freadshort(self, n):
        return self.cmd("FREADSHORT %d" % n)

    def eof(self):
        return self.cmd("EOF")

    def step(self):
        return self.cmd("STEP")

    def reg(self, kind, path, *args):
        """kind: obj|list|listv|inaddr|<subtype int>; path: list of names"""
        p = "/".join(pct_enc(x)[1:] for x in path)
        return self.cmd("REG %s %s %s" % (kind, p, " ".join(pct_enc(a) for a in args)))

    def log(self, fac, sev, text):
        return self.cmd("LOG %s %d %s" % (fac, sev, text))

    def hookall(self):
        return self.cmd("HOOKALL")

    def dumpconf(self):
        return self.cmd("DUMPCONF")

    def audit(self, cids=None):
        return self.cmd("AUDIT" if not cids else "AUDIT %s" % ",".join(str(c) for c in list(cids)[:200]))

    def counters(self):
        return self.cmd("COUNTERS")

    # --------------------------------------------------------------- finish
    def finish(self, kill=False):
        """Close the control channel, collect exit status, teardown marker,
        late notes and the sanitizer report."""
        if self.exit is not None:
            return self.exit
        ex = Exit()
        try:
            os.close(self.w)
        except OSError:
            pass
        if kill:
            try:
                self.p.kill()
            except OSError:
                pass
        deadline = time.time() + STEP_TIMEOUT
        try:
            while True:
                try:
                    rep = self._read_reply()
                except HostDied:
                    break
                if rep.status.startswith("EXIT"):
                    ex.exit_status = int(rep.status[4:])
                    ex.out += rep.out
                    ex.notes += rep.notes
                elif rep.status == "TEARDOWN":
                    ex.teardown = True
                    ex.out += rep.out
                    ex.notes += rep.notes
                else:
                    ex.notes += rep.notes
                if time.time() > deadline:
                    break
        except HostHang:
            self.p.kill()
            ex.signal = "hang-at-exit"
        try:
            os.close(self.r)
        except OSError:
            pass
        try:
            rc = self.p.wait(timeout=STEP_TIMEOUT)
        except subprocess.TimeoutExpired:
            self.p.kill()
            rc = self.p.wait()
            ex.signal = "hang-at-exit"
        ex.rc = rc
        if rc < 0:
            ex.signal = ex.signal or signal.Signals(-rc).name
        self.errf.close()
        try:
            with open(self.errpath, "rb") as f:
                ex.stderr = f.read().decode("latin1")
            os.unlink(self.errpath)
        except OSError:
            pass
        for n in ex.notes:
            if n.startswith("DISPATCH "):
                ex.dispatch = int(n.split()[1])
        m = re.search(r"ERROR: AddressSanitizer: (\S+)", ex.stderr)
        if m:
            ex.asan = m.group(1)
            ex.asan_frames = re.findall(r"#\d+ 0x[0-9a-f]+ in (\w+)", ex.stderr)[:8]
        if "LeakSanitizer: detected memory leaks" in ex.stderr:
            ex.leak = True
        ex.ubsan = re.findall(r"runtime error: ([^\n]*)", ex.stderr)
        ex.ubsan_where = re.findall(r"([^\s:/]+\.c:\d+):\d+: runtime error: shift exponent", ex.stderr)
        self.hash.update(b"rc=%d td=%d" % (rc, ex.teardown))
        self.exit = ex
        self.dead = True
        return ex

    def digest(self):
        return self.hash.hexdigest()


def new_scratch(tag="run"):
    base = "/dev/shm" if os.path.isdir("/dev/shm") else "/verif/build"
    d = os.path.join(base, "verif.%d.%s" % (os.getpid(), tag))
    shutil.rmtree(d, ignore_errors=True)
    os.makedirs(d)
    # the daemon's library_path is the relative name "lib": the configuration text (and with it torn-file cut
    # points and the history hash) must not depend on where the build directory is
    os.symlink(MODS, os.path.join(d, "lib"))
    return d
