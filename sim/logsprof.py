"""logs profile (C18): log routing follows the logs section, across reloads.

After the initial load and after every reload step the host emits, through
the public log_message(), one line with a unique nonce for every (facility,
severity != fatal).  An independent parser of `facility.sevset` predicts, per
(facility, severity), the multiset of destination files.  Oracle over the
files at the end: a nonce is in a file iff the section in force when it was
emitted maps it there (at most as many copies as mappings), every line has the
documented format with the emitter's facility/severity and the simulated
time stamp, and every file ends in a newline.
"""
import zlib
import collections, copy, json, os, random, re, shutil, time
import host as H
import proto
from world import Violation
from model import conf_quote
from runner import ddmin
import runner

SEVS = ["debug", "command", "info", "warning", "error", "fatal"]
FACS = ["core", "config", "va", "vb"]
FILES = ["f1", "f2", "f3", "f4", "f5", "f6", "f7", "f8", "f9"]
FEW = FILES[:4]
CORE = 'core {\n library_path ( "/nonexistent" )\n modules ( )\n}\n'
WALL0 = 1700000000 + 1000


def parse_entry(name):
    """-> (facility, set of severity indexes) or None when the entry is ignored as a whole"""
    if "." not in name:
        return None
    fac, sep = name.split(".", 1)
    if sep == "*":
        return fac, set(range(6))
    out = set()
    rest = sep
    while rest is not None and rest != "":
        if "," in rest:
            item, rest = rest.split(",", 1)
        else:
            item, rest = rest, None
        op = 0
        if item.startswith(">"):
            item = item[1:]
            if item.startswith("="):
                op = 1
                item = item[1:]
            else:
                op = 2
        elif item.startswith("<"):
            item = item[1:]
            if item.startswith("="):
                op = 3
                item = item[1:]
            else:
                op = 4
        elif item.startswith("="):
            item = item[1:]
        idx = [i for i, n in enumerate(SEVS) if n == item.lower()]
        if not idx:
            return None
        i = idx[0]
        if op == 0:
            out.add(i)
        elif op == 1:
            out |= set(range(i, 6))
        elif op == 2:
            out |= set(range(i + 1, 6))
        elif op == 3:
            out |= set(range(0, i + 1))
        else:
            out |= set(range(0, i))
    return fac, out


def routing(ents):
    """ents: list of [name, dest] (dest = file name or list of file names) -> {(fac, sev): Counter(file)}"""
    r = collections.defaultdict(collections.Counter)
    ents = ents or []
    eff = collections.OrderedDict()
    for n, v in ents:
        eff[(n.lower(), isinstance(v, list))] = (n, v)     # a repeated key: the later one overrides
    for (n, v) in eff.values():
        pe = parse_entry(n)
        if pe is None:
            continue
        fac, sevs = pe
        for s in sevs:
            for f in (v if isinstance(v, list) else [v]):
                r[(fac.lower(), s)][f] += 1
    return r


def gen_section(rnd):
    ents = []
    big = rnd.random() < 0.06       # many entries, long destination lists over many files (vector growth)
    for _ in range(rnd.randint(0, 6) if not big else rnd.choice([9, 13, 17])):
        fac = rnd.choice(FACS + ["*", "*", "CORE", "Va"])
        k = rnd.random()
        if k < 0.15:
            sev = "*"
        elif k < 0.88:
            sev = ",".join(rnd.choice(["", "", ">", ">=", "<", "<=", "="]) + rnd.choice(SEVS[:5] + ["fatal", "Info", "WARNING"])
                           for _ in range(rnd.choice([1, 1, 2, 3])))
        else:
            sev = rnd.choice(["bogus", ">=", ",info", "info,,error", "*,info", "", "info,", ">>info", "=>info", "inf"])
        name = "%s.%s" % (fac, sev) if rnd.random() < 0.95 else fac
        files = [rnd.choice(FILES if big else FEW) for _ in range(rnd.choice([1, 1, 2, 3]) if not big else rnd.choice([1, 4, 5, 8, 9, 16, 17]))]
        ents.append([name, files if (len(files) > 1 or rnd.random() < 0.3) else files[0]])
    if rnd.random() < 0.2 and ents:
        ents.append(copy.deepcopy(rnd.choice(ents)))       # repeated key
    return ents


def render(ents, rnd=None):
    if ents is None:
        return CORE         # the file does not mention the logs section at all
    out = ["logs {"]
    # one file in eight writes the section as two blocks (a function of the entries, so that the same table always
    # gives the same file): blocks of one name are one section, in the order written
    h = zlib.crc32(repr(ents).encode())
    cut = 1 + (h >> 8) % (len(ents) - 1) if len(ents) >= 2 and h % 8 == 0 else None
    for j, (n, v) in enumerate(ents):
        if j == cut:
            out += ["}", 'core { "note" "between the blocks" }' if h % 16 == 0 else "", "logs {"]
        if isinstance(v, list):
            out.append(' %s ( %s )' % (conf_quote(n), ", ".join('"file:%s"' % f for f in v)))
        else:
            out.append(' %s "file:%s"' % (conf_quote(n), v))
    out.append("}")
    return CORE + "\n".join(x for x in out if x) + "\n"


def stamp(ns):
    t = time.gmtime(WALL0 + ns // 10 ** 9)
    return "[%02d:%02d:%02d %02d/%02d/%04d]" % (t.tm_hour, t.tm_min, t.tm_sec, t.tm_mon, t.tm_mday, t.tm_year)


NONCE_RE = re.compile(r"nonce\d+x")
LINE_RE = re.compile(r"^\[(\d\d:\d\d:\d\d \d\d/\d\d/\d{4})\] \(([^:()]+):(debug|command|info|warning|error|fatal)\) (.*)$")


class LogsProfile:
    name = "logs"

    def gen_run(self, rnd, opts, tier, tag):
        steps = [{"kind": "reload", "ents": gen_section(rnd), "mode": "start"}]
        if rnd.random() < 0.04:
            # a long lifetime: dozens of reloads in which one destination stays attached throughout while the
            # others come and go, so that many destinations are opened and closed over one process lifetime
            anchor = [rnd.choice(["*.*", "*.>=debug", "*.<=fatal"]), rnd.choice(FEW)]
            steps[0]["ents"] = [list(anchor)] + steps[0]["ents"][:2]
            for _ in range(rnd.randint(35, 70)):
                ents = [list(anchor)]
                for _ in range(rnd.randint(1, 3)):
                    fac = rnd.choice(FACS + ["*"])
                    sev = rnd.choice(["*", ">=debug", "<=error", "info,warning,error", ">command"])
                    files = rnd.sample([f for f in FILES if f != anchor[1]], rnd.choice([1, 1, 2, 3]))
                    ents.append(["%s.%s" % (fac, sev), files if len(files) > 1 or rnd.random() < 0.3 else files[0]])
                steps.append({"kind": "reload", "ents": ents, "mode": "plain"})
            plan = {"profile": "logs", "steps": steps, "adv": [rnd.choice([0, 0, 1, 59]) for _ in steps], "long": 0, "lifetime": "long"}
            return plan, self.run(plan, tag)
        if rnd.random() < 0.06:
            # several destinations of one list go at once (neighbours in name order among them), one of the files is
            # then moved away, and later every file is named again
            key = rnd.choice(["*.*", "*.>=debug", "core.*"])
            keep = rnd.sample(list(FEW), rnd.choice([0, 1, 1, 2]))
            steps.append({"kind": "reload", "ents": [[key, list(FEW)]], "mode": "plain"})
            steps.append({"kind": "reload", "ents": [[key, keep]] if keep else rnd.choice([[], None]), "mode": "plain"})
            for _ in range(rnd.choice([1, 2])):
                steps.append({"kind": "rotate", "pick": rnd.randrange(24)})
            steps.append({"kind": "reload", "ents": [[key, list(FEW)]], "mode": "plain"})
        for _ in range(rnd.randint(1, 5)):
            k = rnd.random()
            if k < 0.55:
                steps.append({"kind": "reload", "ents": gen_section(rnd), "mode": rnd.choice(["plain", "plain", "burst", "emit-between"])})
            elif k < 0.63:
                # the operator moves a log file away (rotation); done only while no entry of the section in force
                # names it (run time decides), so the daemon must have closed it and must open a new one later
                steps.append({"kind": "rotate", "pick": rnd.randrange(24)})
                if rnd.random() < 0.6:
                    # ... and then names every file again
                    steps.append({"kind": "reload", "ents": [[rnd.choice(["*.*", "*.>=debug", "core.*"]), list(FEW)]] + (gen_section(rnd) if rnd.random() < 0.4 else []),
                                  "mode": "plain"})
            elif k < 0.68:
                # the new file has no logs section at all (or an empty one)
                steps.append({"kind": "reload", "ents": rnd.choice([None, None, []]), "mode": rnd.choice(["plain", "plain", "burst"])})
            elif k < 0.74:
                prev = [s for s in steps if s["kind"] == "reload"][-1]
                steps.append({"kind": "reload", "ents": copy.deepcopy(prev["ents"]), "mode": "plain", "same": True})
            elif k < 0.8:
                prev = [s for s in steps if s["kind"] == "reload"][-1]
                ents = copy.deepcopy(prev["ents"]) or []
                if ents:
                    rnd.shuffle(ents)
                    if rnd.random() < 0.5:
                        ents.pop()
                steps.append({"kind": "reload", "ents": ents, "mode": "plain"})
            elif k < 0.9:
                # edit in place: same entry names, only the destination(s) of one or two entries change
                prev = [s for s in steps if s["kind"] == "reload"][-1]
                ents = copy.deepcopy(prev["ents"]) or []
                for _ in range(rnd.choice([1, 1, 2])):
                    if not ents:
                        break
                    e = rnd.choice(ents)
                    if isinstance(e[1], list):
                        e[1] = [rnd.choice(FEW) for _ in range(rnd.choice([1, 2, 3]))]
                    else:
                        e[1] = rnd.choice([f for f in FEW if f != e[1]])
                steps.append({"kind": "reload", "ents": ents, "mode": rnd.choice(["plain", "plain", "burst"]), "inplace": True})
            else:
                txt = render(gen_section(rnd))
                steps.append({"kind": "damaged", "text": rnd.choice([txt[:rnd.randrange(len(txt))], "logs { \"core.info\" ", "\x00\x01garbage", ""])})
        plan = {"profile": "logs", "steps": steps, "adv": [rnd.choice([0, 0, 1, 59, 3600, 86399]) for _ in steps],
                # in half of the runs some messages are long: up to and beyond log_vmessage()'s 1023 bytes
                "long": rnd.randrange(1, 1 << 30) if rnd.random() < 0.5 else 0,
                "fatal_end": rnd.choice(FACS) if rnd.random() < 0.3 else None}
        return plan, self.run(plan, tag)

    def run(self, plan, tag):
        res = proto.Result()
        res.extra = {"reloads": 0, "identical_reloads": 0, "failed_reloads": 0, "messages_emitted": 0, "lines_checked": 0,
                     "entries": 0, "entries_ignored": 0, "emitted_between_signals": 0, "valid_file_rejected": 0, "pairs_routed": 0,
                     "long_messages": 0, "stamped_with_simulated_time": 0, "long_lifetimes": int(plan.get("lifetime") == "long")}
        scratch = H.new_scratch(tag)
        conf = os.path.join(scratch, "iauthd.conf")
        steps = plan["steps"]
        viol = []
        first = steps[0]
        with open(conf, "w", encoding="latin1") as f:
            f.write(render(first["ents"]))
        res.transcript.append(("conf", render(first["ents"])))
        h = H.Host(conf, scratch)
        emitted = []
        fatal_exit = False
        lost = False        # an accidentally valid damaged file is in force: the routing is no longer known
        rotated = []        # (file, path it was moved to, size at that moment)
        nonce = [0]
        now = [0]
        died = None

        lr = random.Random(plan.get("long") or 0)
        texts = {}

        def emit_all(rt, label):
            for fac in FACS:
                for sv in range(5):
                    nonce[0] += 1
                    tok = "nonce%dx" % nonce[0]
                    text = tok
                    if plan.get("long") and lr.random() < 0.12:
                        n = lr.choice([200, 500, 900, 960, 980, 990, 1000, 1010, 1022, 1023, 1024, 1025, 1100, 2000, 3500])
                        text = (tok + " " + "".join(lr.choice("abcdefghijklmnopqrstuvwxyz0123456789 ():[]%") for _ in range(n)))[:n].rstrip(" ") + "."
                        res.extra["long_messages"] += 1
                    texts[tok] = text[:1023]        # log_vmessage() formats into a 1024-byte buffer
                    h.log(fac, sv, text)
                    exp = collections.Counter(rt.get((fac, sv), {}))
                    exp.update(rt.get(("*", sv), {}))
                    emitted.append((tok, fac, sv, exp, now[0]))
                    res.extra["messages_emitted"] += 1
                    if exp:
                        res.extra["pairs_routed"] += 1
        try:
            if h.ready is None:
                raise H.HostDied()
            cur = first["ents"]
            rt = routing(cur)
            res.extra["entries"] += len(cur)
            res.extra["entries_ignored"] += sum(1 for n, _ in (cur or []) if parse_entry(n) is None)
            emit_all(rt, "start")
            for si, s in enumerate(steps[1:], 1):
                adv = plan["adv"][si] if si < len(plan["adv"]) else 0
                if adv:
                    h.adv(adv * 10 ** 9)
                    now[0] += adv * 10 ** 9
                if s["kind"] == "rotate":
                    cands = [f for f in FILES if os.path.exists(os.path.join(scratch, f)) and not any(f in c for c in rt.values())]
                    if not cands:
                        res.transcript.append(("rotate-skipped", "", []))
                        continue
                    s = dict(s, file=cands[s.get("pick", 0) % len(cands)])
                    fpath = os.path.join(scratch, s["file"])
                    rot = "%s.rot%d" % (fpath, len(rotated))
                    os.rename(fpath, rot)
                    rotated.append((s["file"], rot, os.path.getsize(rot)))
                    res.extra["log_files_rotated_while_unreferenced"] = res.extra.get("log_files_rotated_while_unreferenced", 0) + 1
                    res.transcript.append(("rotate", s["file"], []))
                    continue
                if s["kind"] == "damaged":
                    with open(conf, "w", encoding="latin1") as f:
                        f.write(s["text"])
                    rep = h.sig("USR1")
                    ok = any(n == "CONFREAD 0" for n in rep.notes)
                    res.transcript.append(("damaged-reload", s["text"][:300], rep.notes))
                    if ok:
                        lost = True
                        break       # by accident valid: the model cannot follow, end the run
                    res.extra["failed_reloads"] += 1
                else:
                    text = render(s["ents"])
                    with open(conf, "w", encoding="latin1") as f:
                        f.write(text)
                    if s["mode"] == "emit-between":
                        h.raise_only("USR1")
                        emit_all(rt, "between")         # still the OLD section: the loop has not run yet
                        res.extra["emitted_between_signals"] += 1
                        rep = h.sig("USR1")
                    elif s["mode"] == "burst":
                        rep = h.sig("USR1", 3)
                    else:
                        rep = h.sig("USR1")
                    res.transcript.append(("reload", text, rep.notes))
                    if not any(n == "CONFREAD 0" for n in rep.notes):
                        res.extra["valid_file_rejected"] += 1
                        break
                    res.extra["reloads"] += 1
                    if routing(s["ents"]) == rt and s.get("same"):
                        res.extra["identical_reloads"] += 1
                    if s.get("inplace"):
                        res.extra["inplace_destination_edits"] = res.extra.get("inplace_destination_edits", 0) + 1
                    cur = s["ents"]
                    rt = routing(cur)
                    res.extra["entries"] += len(cur or [])
                    res.extra["sections_omitted"] = res.extra.get("sections_omitted", 0) + int(cur is None)
                    res.extra["entries_ignored"] += sum(1 for n, _ in (cur or []) if parse_entry(n) is None)
                emit_all(rt, "step %d" % si)
            if not h.dead and plan.get("fatal_end") and not lost:
                # the daemon's dying message: severity fatal is routed like any other, then the process exits
                fac = plan["fatal_end"]
                nonce[0] += 1
                tok = "nonce%dx" % nonce[0]
                texts[tok] = tok
                exp = collections.Counter(rt.get((fac, 5), {}))
                exp.update(rt.get(("*", 5), {}))
                emitted.append((tok, fac, 5, exp, now[0]))
                res.extra["fatal_messages"] = 1
                try:
                    h.log(fac, 5, tok)
                except H.HostDied:
                    fatal_exit = True
            elif not h.dead:
                h.sig("HUP")
        except (H.HostDied, H.HostHang) as ex:
            died = type(ex).__name__
        ex = h.finish(kill=(died == "HostHang"))
        res.exit = ex
        res.hash = h.digest()
        res.ubsan = ex.ubsan
        if ex.asan:
            viol.append(Violation(("C18",), "memory-error", "AddressSanitizer: %s in %s" % (ex.asan, ex.asan_frames[:5])))
        elif fatal_exit and not died and ex.rc == 1:
            pass        # log_message(..., LOG_FATAL, ...) ends the process with status 1 by design
        elif died or ex.rc != 0 or not ex.teardown:
            viol.append(Violation(("C18",), "died", "daemon died or exited uncleanly during a logs-section history: rc=%s %s" % (ex.rc, ex.stderr[-300:])))
        content = {}
        for f in FILES:
            content[f] = ""
            for (rf, rot, size) in rotated:
                if rf == f:
                    with open(rot, "rb") as fh:
                        content[f] += fh.read().decode("latin1")
                    if os.path.getsize(rot) != size and not viol:
                        viol.append(Violation(("C18",), "stale-destination", "log file %s was moved away while no entry named it (the daemon had "
                                              "to close it); it has grown by %d bytes since: a later section's messages went to the old file "
                                              "instead of a newly opened %s" % (f, os.path.getsize(rot) - size, f)))
            try:
                with open(os.path.join(scratch, f), "rb") as fh:
                    content[f] += fh.read().decode("latin1")
            except FileNotFoundError:
                pass
        hb = H.hashlib.sha256()
        for f in FILES:
            hb.update(content[f].encode("latin1"))
        res.hash = H.hashlib.sha256((res.hash + hb.hexdigest()).encode()).hexdigest()
        if not viol:
            viol += self.check_files(content, emitted, res, texts)
        res.viol = viol
        res.steps = len(steps)
        res.nontrivial = res.extra["pairs_routed"] > 0 and res.extra["reloads"] > 0
        res.transcript.append(("files", {f: len(content[f].split("\n")) - 1 for f in FILES}, []))
        shutil.rmtree(scratch, ignore_errors=True)
        return res

    def check_files(self, content, emitted, res, texts=None):
        viol = []
        index = {}      # nonce -> {file: [(ts, fac, sev)]}
        for f in FILES:
            c = content[f]
            if c and not c.endswith("\n"):
                viol.append(Violation(("C18",), "incomplete-line", "file %s does not end in a newline" % f))
            for ln in c.split("\n")[:-1]:
                res.extra["lines_checked"] += 1
                toks = NONCE_RE.findall(ln)
                if not toks:
                    continue            # one of the daemon's own messages
                if len(toks) > 1:
                    viol.append(Violation(("C18",), "incomplete-line", "file %s: two messages share one line (the first lost its end): %r ... %r" %
                                          (f, ln[:80], ln[-60:])))
                    break
                t = toks[0]
                at_ = ln.index(t)
                prefix, msg = ln[:at_], ln[at_:]
                if texts is not None and t in texts and msg != texts[t]:
                    viol.append(Violation(("C18",), "incomplete-line", "file %s: message %s was written as %d bytes %r..., emitted (cut at the "
                                          "1023-byte message buffer) as %d bytes" % (f, t, len(msg), msg[-40:], len(texts[t]))))
                    break
                # the layout of the prefix is the daemon's business; it must name the facility and the severity
                words = [w.lower() for w in re.findall(r"[A-Za-z_*][A-Za-z0-9_*]*", prefix)]
                m = LINE_RE.match(ln)
                index.setdefault(t, {}).setdefault(f, []).append((m.group(1) if m else None, words))
        if viol:
            return viol
        for tok, fac, sv, exp, at in emitted:
            hits = index.get(tok, {})
            for f in FILES:
                got = hits.get(f, [])
                want = exp.get(f, 0)
                for (ts, words) in got:
                    others = [x for x in SEVS if x != SEVS[sv] and x in words]
                    if fac not in words or SEVS[sv] not in words or others:
                        viol.append(Violation(("C18",), "misattributed", "message emitted as %s.%s appears in %s with the prefix words %s" % (fac, SEVS[sv], f, words)))
                    elif ts is not None and "[" + ts + "]" == stamp(at):
                        res.extra["stamped_with_simulated_time"] += 1      # observed, not demanded: C18 does not speak of time stamps
                if (len(got) > 0) != (want > 0):
                    viol.append(Violation(("C18",), "routing", "%s.%s %s written to %s: the section in force maps it there %d time(s), found %d" %
                                          (fac, SEVS[sv], "was" if got else "was not", f, want, len(got))))
                elif len(got) > want:
                    viol.append(Violation(("C18",), "multiplicity", "%s.%s written %d times to %s but mapped there only %d time(s)" %
                                          (fac, SEVS[sv], len(got), f, want)))
                if viol:
                    return viol
        return viol

    def transcript(self, res):
        out = []
        for t in res.transcript:
            if t[0] in ("conf", "reload"):
                out += ["> [%s]" % t[0]] + ["    " + l for l in t[1].split("\n")]
                if len(t) > 2:
                    out += ["    < %s" % n for n in t[2]]
            else:
                out.append("> [%s] %s" % (t[0], json.dumps(t[1])[:600]))
        ex = res.exit
        if ex is not None:
            out.append("exit: rc=%s teardown=%s asan=%s" % (ex.rc, ex.teardown, ex.asan))
            if ex.asan:
                out += ["    ! " + l for l in ex.stderr.split("\n")[:40]]
        return out

    def shrink(self, plan, pred, budget):
        cur = copy.deepcopy(plan)

        def t(st):
            if not st or st[0]["kind"] != "reload":
                return False
            return pred(dict(cur, steps=st, adv=[0] * len(st)))
        if budget[0] > 0 and t(cur["steps"]):
            cur["adv"] = [0] * len(cur["steps"])
        cur["steps"] = [cur["steps"][0]] + ddmin(cur["steps"][1:], lambda st: t([cur["steps"][0]] + st), budget) if len(cur["steps"]) > 2 else cur["steps"]
        cur["adv"] = cur["adv"][:len(cur["steps"])] + [0] * max(0, len(cur["steps"]) - len(cur["adv"]))
        for si in range(len(cur["steps"])):
            if cur["steps"][si]["kind"] != "reload":
                continue
            j = 0
            while j < len(cur["steps"][si]["ents"] or []) and budget[0] > 0:
                c = copy.deepcopy(cur)
                del c["steps"][si]["ents"][j]
                budget[0] -= 1
                if pred(c):
                    cur = c
                else:
                    j += 1
        return cur


runner.register(LogsProfile())
