"""bytes profile (C08): the input channel as a byte stream.

 mode "robust":  grammar-aware mutated and random streams, random read
                 boundaries, EINTR/EAGAIN on reads, EOF at an arbitrary byte.
                 Oracle: no sanitizer report, no signal, no hang, exit status 0
                 after EOF, teardown completed.
 mode "indiff":  a stream S of well-formed lines (recorded from a protocol
                 run).  A: one line per read.  B: same bytes, random
                 segmentation + read faults + CRLF.  C: S with junk lines
                 interleaved.  Oracle: output(B) == output(A);
                 output(C) minus the output of junk steps == output(A), and a
                 junk step may only print operator notices.
 mode "prefix":  (thorough) every prefix of a stream, then EOF, must end
                 cleanly.
"""
import re
import copy, json, os, random, shutil
import host as H
import proto
from proto import gen_cfg, render_cfg, word
from world import Violation
from model import parse_out
from runner import ddmin
import runner

CRASH = ("C08", "C10")     # a crash, sanitizer report, hang or unclean exit of a protocol run: both statements name it


class RawResult(proto.Result):
    pass


def raw_run(cfg, chunks, tag, eof=True, faults=None, leaks=False, prequeue=None):
    """Feed raw chunks (list of bytes).  faults: {chunk index: 'EAGAIN'|'EINTR'}.  prequeue: bytes that are already
    readable on the channel when the daemon makes the first pass of its event loop (their output comes with the
    start-up output, which is then the first element of the list returned).
    Returns (list of per-chunk output bytes, Exit, hash, died_at)."""
    scratch = H.new_scratch(tag)
    conf = os.path.join(scratch, "iauthd.conf")
    with open(conf, "w", encoding="latin1") as f:
        f.write(render_cfg(cfg, scratch))
    env = None
    if prequeue is not None:
        with open(os.path.join(scratch, "prequeue.bin"), "wb") as f:
            f.write(prequeue)
        env = {"VERIF_PREQUEUE": os.path.join(scratch, "prequeue.bin")}
    h = H.Host(conf, scratch, leaks=leaks, env=env)
    outs = []
    if prequeue is not None and h.ready is not None:
        outs.append(h.ready.out)
    died = None
    hang = False
    if h.ready is None:
        ex = h.finish()
        shutil.rmtree(scratch, ignore_errors=True)
        return [], ex, h.digest(), "start"
    try:
        for n, c in enumerate(chunks):
            if faults and n in faults:
                h.rdfault(faults[n], 1)
            rep = h.feed(c)
            outs.append(rep.out)
            if rep.status == "BREAK":
                break
        if eof and not h.dead:
            rep = h.eof()
            outs.append(rep.out)
    except H.HostDied:
        died = len(outs)
    except H.HostHang:
        died = len(outs)
        hang = True
    ex = h.finish(kill=hang)
    if hang:
        ex.signal = "hang"
    ex.ready_out = h.ready.out if h.ready is not None else b""
    shutil.rmtree(scratch, ignore_errors=True)
    return outs, ex, h.digest(), died


def clean_exit_viol(ex, died, what):
    if ex.signal == "hang":
        return Violation(CRASH, "hang", "%s: daemon did not answer within the step budget" % what)
    if ex.asan:
        return Violation(CRASH, "memory-error", "%s: AddressSanitizer: %s in %s" % (what, ex.asan, ex.asan_frames[:4]))
    if ex.signal:
        return Violation(CRASH, "signal", "%s: daemon killed by %s" % (what, ex.signal))
    mem = [u for u in ex.ubsan if any(x in u for x in ("null pointer", "out of bounds", "misaligned", "object size"))]
    if mem:
        return Violation(CRASH, "ub-memory", "%s: UBSan: %s" % (what, mem[0]))
    if died is not None or ex.rc != 0 or not ex.teardown:
        return Violation(CRASH, "unclean-exit", "%s: exit status %s, teardown %s, died at chunk %s: %s" %
                         (what, ex.rc, ex.teardown, died, ex.stderr[-200:]))
    return None


def after_verdict_diff(A, B, tags):
    """Per client id, the lines naming it (client-directed lines by id, queries by the routing tag the recording
    run bound to it).  Returns a description when run B's sequence for some id goes on after a verdict where
    run A's does not (or has a verdict more)."""
    def per_id(out):
        seq = {}
        for ln in out.decode("latin1").split("\n"):
            f = ln.split(" ")
            if len(f) > 2 and f[0] == "X" and f[2] in tags:
                seq.setdefault(tags[f[2]], []).append(ln)
            elif len(f) > 1 and len(f[0]) == 1 and f[0] in "oUuNIMCkKdDR" and f[1].lstrip("-").isdigit():
                seq.setdefault(int(f[1]), []).append(ln)
        return seq
    sa, sb = per_id(A), per_id(B)
    for cid in sorted(sb):
        a, b = sa.get(cid, []), sb[cid]
        j = next((j for j in range(min(len(a), len(b))) if a[j] != b[j]), min(len(a), len(b)))
        if j < len(b) and j > 0 and b[j - 1][:1] in "DRkK":
            if True:
                return "client %d: after %r the daemon went on with %r (line per read: %r)" % (cid, b[j - 1][:80], b[j][:120], a[j][:80] if j < len(a) else None)
    return None


IN_USE_RE = re.compile(rb"(\d+) in use")


def segment(rnd, data, mode=None):
    mode = mode or rnd.choice(["tiny", "mixed", "mixed", "big", "one"])
    out = []
    i = 0
    while i < len(data):
        if mode == "tiny":
            n = rnd.choice([1, 1, 2, 3])
        elif mode == "big":
            n = rnd.choice([4096, 5000, 70000])
        elif mode == "one":
            n = len(data)
        else:
            n = rnd.choice([1, 2, 3, 7, 50, 300, 4095, 4096, 4097, 9000])
        if len(data) > 40000 and n < 300 and rnd.random() < 0.97:
            n = rnd.choice([300, 1000, 4096, 4097])      # keep the number of reads of a huge stream bounded
        out.append(data[i:i + n])
        i += n
    return out


JUNK_STATIC = [
    b"-1 M irc.example.org 1024", b"-1 M", b"-1 E missing-message", b"-1 D garbage", b"-1 N more garbage",
    b"-1 d still garbage", b"-1 P password garbage", b"-1 U userinfo garbage", b"-1 u username", b"-1 n nick",
    b"-1 H hurry", b"-1 T done", b"-1 ? bogus", b"-1 ?", b"-1 X", b"-1 X a", b"-1 X a b", b"-1 x a", b"-1 x a b",
    b"-1 X bot.example.org zz_1 :OK", b"-1 X login.example.org 7+1 :NO why", b"-1 X login.example.org 7_1_ :YES",
    b"-1 X login.example.org _ :OK x", b"-1 X nosuch.example.org 1_1 :OK who", b"-1", b"   ", b"\t \t", b"-1 ",
    b"900001", b"900001 N", b"900001 P", b"900001 n", b"900001 N host.example.org", b"900001 D", b"900001 T",
    b"900001 H", b"900001 P :+x a b", b"900001 U name :real", b"900001 u ident", b"900001 d", b"900001 E a :b",
    b"900002 C onlytwo 1", b"900002 C", b"900002 C 1.2.3.4 5", b"900002 C 1.2.3.4 5 0::1",
    b"900003 " + b" ".join(b"w%d" % i for i in range(25)), b"900003 Z " + b"x" * 5000, b"900003 " + b"y" * 70000,
    b"900004 \xff\xfe\x80 bytes", b"-1 \x01\x02\x7f", b"900005 N \x00embedded nul",
]


def junk_line(rnd, live):
    k = rnd.random()
    if k < 0.75 or not live:
        return rnd.choice(JUNK_STATIC)
    lc = rnd.choice(live)
    return rnd.choice([b"%d Z what is this", b"%d q", b"%d 9 nine", b"%d E errtype :no, you are in error", b"%d E",
                       b"%d U missing_user_info", b"%d", b"%d ", b"%d N", b"%d n", b"%d P", b"%d Q " + b"z" * 3000]) % lc \
        if True else b""


INFLATE_SIZES = [480, 900, 990, 1000, 1010, 1020, 1023, 1024, 1025, 1040, 1100, 1500, 2047, 2048, 4095, 4096, 4097, 9000, 70000, 1 << 20]


def inflate(rnd, l):
    """The same well-formed line with one over-long parameter: its trailing text (after ' :') or its last word
    grows to a length around the daemon's line and message buffers, so that a line that is *acted on* (a reply
    for a live tag, a password, user info, a host name) carries more than any fixed buffer holds."""
    n = rnd.choice(INFLATE_SIZES) + rnd.choice([0, 0, -1, 1, 7])
    fill = bytes(rnd.choice(b"abcdefghijklmnopqrstuvwxyzABCXYZ0123456789 %:") for _ in range(min(n, 4096)))
    fill = (fill * (n // max(1, len(fill)) + 1))[:n]
    if b" :" in l:
        head, _, tail = l.partition(b" :")
        verb = tail.split(b" ")[0] if head.split(b" ")[1:2] in ([b"X"], [b"x"]) else b""
        if verb in (b"OK", b"NO", b"AGAIN", b"MORE"):
            return head + b" :" + verb + b" " + fill
        return head + b" :" + tail[:20] + fill
    w = l.split(b" ")
    if len(w) >= 3:
        w[-1] = w[-1] + fill.replace(b" ", b"_")
        return b" ".join(w)
    return l


def mutate_stream(rnd, lines):
    """grammar-aware mutator for the robustness part"""
    out = []
    for l in lines:
        k = rnd.random()
        if k < 0.5:
            out.append(l)
        elif k < 0.55:
            w = l.split(b" ")
            if len(w) >= 6 and w[1] == b"C" and rnd.random() < 0.6:
                # an announce whose address text is not an address: too many components, groups, digits
                bad = rnd.choice([b".".join([b"65"] * rnd.choice([5, 8, 24, 32, 48])), b":".join([b"1"] * rnd.choice([9, 12, 40])),
                                  b"0::" + b".".join([b"65"] * rnd.choice([5, 9, 33])), b"1" * rnd.choice([40, 200]), b"1.2.3.4.", b"::1",
                                  b"fffff::1", b"1:2:3:4:5:6:7:8:9", b"256.1.1.1", b"1..2.3", b"-1.2.3.4", b"0x10.1.1.1"])
                w[rnd.choice([2, 4])] = bad
                out.append(b" ".join(w))
            else:
                out.append(inflate(rnd, l))
        elif k < 0.65:
            out.append(l[:rnd.randrange(len(l) + 1)])                    # truncated line
        elif k < 0.72:
            out.append(l.split(b" ")[0])                                 # only the id
        elif k < 0.78:
            out.append(b" ".join(l.split(b" ")[:2]))                     # command without parameters
        elif k < 0.84:
            out.append(l + b" " + b" ".join(b"p%d" % i for i in range(20)))   # > 16 words
        elif k < 0.9:
            b = bytearray(l)
            for _ in range(rnd.randint(1, 4)):
                if b:
                    b[rnd.randrange(len(b))] = rnd.choice([0, 13, 32, 58, 255, rnd.randrange(256)])
            out.append(bytes(b).replace(b"\n", b" "))
        elif k < 0.95:
            out.append(rnd.choice(JUNK_STATIC))
            out.append(l)
        else:
            out.append(bytes(rnd.randrange(256) for _ in range(rnd.randint(1, 200))).replace(b"\n", b"\r"))
    return out


class BytesProfile:
    name = "bytes"

    def base_stream(self, rnd, tag, opts):
        """A valid session recorded from a protocol run: (cfg, [(line bytes, live ids after it)])."""
        o = {"timeout": 0, "w_audit": 0, "drain": True, "prop": (opts or {}).get("prop", "C08"), "p_one_socket": 0,
             "faults": [f for f in ("cli_hurry", "cli_disconnect", "cli_reannounce_live", "cli_registered_early",
                                    "cli_pass_repeat", "cli_pass_illshaped", "xr_dup", "xr_stale", "xr_unlinked",
                                    "xr_notfinal", "xr_not_awaited", "xr_unknown_svc", "xr_forged") if rnd.random() < 0.5],
             "steps": rnd.choice([15, 40, 80, 160]), "p_logs": 0.2}
        plan, res = proto.run_generated(rnd, o, tag=tag)
        lines = [(l.encode("latin1"), live) for (l, live) in res.rawlines]
        self.last_proto_plan = plan
        return plan["cfg"], lines, res

    def gen_run(self, rnd, opts, tier, tag):
        mode = rnd.choices(["robust", "indiff", "prefix"], [3, 3, 1 if tier == "thorough" else 0.15])[0]
        cfg, lines, base = self.base_stream(rnd, tag + "G", opts)
        if base.viol or base.infra or not lines:
            base.nontrivial = False
            # (the protocol run that was to be recorded went wrong itself: the plan replays that run)
            return {"profile": "bytes", "mode": "base", "cfg": cfg, "lines": [l.decode("latin1") for l, _ in lines],
                    "proto_plan": self.last_proto_plan}, base
        plan = {"profile": "bytes", "mode": mode, "cfg": cfg}
        S = [l for l, _ in lines]
        if mode == "indiff" and rnd.random() < 0.35:
            # a few well-formed lines carry an over-long parameter (same treatment required however it is chunked)
            for _ in range(rnd.choice([1, 1, 2, 4])):
                j = rnd.randrange(len(S))
                S[j] = inflate(rnd, S[j])
            lines = [(S[j], lines[j][1]) for j in range(len(S))]
            plan["inflated"] = True
        if mode == "robust":
            stream = mutate_stream(rnd, S) if rnd.random() < 0.8 else \
                [bytes(rnd.randrange(256) for _ in range(rnd.randint(1, 400))) for _ in range(rnd.randint(1, 30))]
            data = b"".join(l + rnd.choice([b"\n", b"\n", b"\r\n", b"\r", b"\n\n"]) for l in stream)
            if rnd.random() < 0.5:
                data = data[:rnd.randrange(len(data) + 1)]      # peer death at an arbitrary byte
            chunks = segment(rnd, data)
            faults = {n: rnd.choice(["EAGAIN", "EINTR"]) for n in range(len(chunks)) if rnd.random() < 0.05}
            plan.update({"chunks": [c.decode("latin1") for c in chunks], "faults": {str(k): v for k, v in faults.items()}})
        elif mode == "indiff":
            seg_seed = rnd.randrange(1 << 30)
            junk_at = []
            for n, (l, live) in enumerate(lines):
                while rnd.random() < 0.3:
                    prev_live = lines[n - 1][1] if n else []
                    junk_at.append([n, junk_line(rnd, prev_live).decode("latin1")])
                w = l.split(b" ", 4)
                if len(w) == 5 and w[1] in (b"X", b"x") and w[4].startswith(b":") and rnd.random() < 0.2:
                    # a malformed reply right before the genuine one: same (awaited) service, same (current) tag,
                    # but the reply text is missing, or the tag too
                    junk_at.append([n, rnd.choice([b" ".join(w[:4]), b" ".join(w[:4]), b" ".join(w[:3]),
                                                   b" ".join([w[0], b"X", w[2], w[3]]),
                                                   b" ".join(w[:4]) + b" "]).decode("latin1")])
            plan.update({"lines": [l.decode("latin1") for l in S], "seg_seed": seg_seed, "junk": junk_at,
                         "tags": {t: c for t, c in sorted(getattr(base, "tagmap", {}).items())}})
        else:
            data = b"".join(l + b"\n" for l in S[:rnd.choice([3, 6, 12])])
            plan.update({"data": data.decode("latin1"), "garbage": rnd.random() < 0.3})
        return plan, self.run(plan, tag)

    def run(self, plan, tag):
        res = RawResult()
        res.extra = {}
        if plan.get("inflated"):
            res.extra["inflated_indiff_runs"] = 1
        mode = plan["mode"]
        cfg = plan["cfg"]
        res.transcript = [("conf", render_cfg(cfg, "."))]
        hs = []
        if mode == "base":
            if plan.get("proto_plan"):
                return proto.run_plan(plan["proto_plan"], tag=tag + "b")
            res.hash = "base"
            res.nontrivial = False
            return res
        if mode == "robust":
            chunks = [c.encode("latin1") for c in plan["chunks"]]
            faults = {int(k): v for k, v in plan.get("faults", {}).items()}
            outs, ex, hh, died = raw_run(cfg, chunks, tag + "r", faults=faults)
            hs.append(hh)
            res.exit = ex
            res.ubsan = ex.ubsan
            v = clean_exit_viol(ex, died, "arbitrary stream")
            if v:
                res.viol.append(v)
            for n, c in enumerate(chunks):
                res.transcript.append(("read", repr(c[:120]) + ("..." if len(c) > 120 else ""), [repr(outs[n][:200])] if n < len(outs) and outs[n] else []))
            res.steps = len(chunks)
            res.extra.update({"robust_runs": 1, "read_faults": len(faults), "bytes_fed": sum(len(c) for c in chunks)})
            res.nontrivial = len(b"".join(outs)) > 60
        elif mode == "indiff":
            S = [l.encode("latin1") for l in plan["lines"]]
            rnd = random.Random(plan["seg_seed"])
            # A: one line per read
            oa, exa, ha, da = raw_run(cfg, [l + b"\n" for l in S], tag + "a")
            hs.append(ha)
            res.exit = exa
            v = clean_exit_viol(exa, da, "run A (line per read)")
            A = b"".join(oa)
            if v:
                res.viol.append(v)
            else:
                # B: same bytes (CRLF allowed), random segmentation + read faults
                data = b"".join(l + rnd.choice([b"\n", b"\n", b"\r\n"]) for l in S)
                chunks = segment(rnd, data)
                faults = {n: rnd.choice(["EAGAIN", "EINTR"]) for n in range(len(chunks)) if rnd.random() < 0.08}
                ob, exb, hb, db = raw_run(cfg, chunks, tag + "b", faults=faults)
                hs.append(hb)
                v = clean_exit_viol(exb, db, "run B (segmented)")
                if v:
                    res.viol.append(v)
                elif b"".join(ob) != A:
                    res.viol.append(Violation("C08", "segmentation-changes-output",
                                              "same bytes, other read boundaries (%d reads, %d read faults): output differs: %s" %
                                              (len(chunks), len(faults), first_diff(A, b"".join(ob)))))
                    v1 = after_verdict_diff(A, b"".join(ob), plan.get("tags", {}))
                    if v1:
                        # run A (a line per read) was judged line by line when the stream was recorded: what run B
                        # says beyond it right after a client's verdict is output for a client that is done with
                        res.viol.append(Violation(("C01", "C08"), "output-after-verdict-when-lines-share-a-read", v1))
                    ua, ub = IN_USE_RE.findall(A), IN_USE_RE.findall(b"".join(ob))
                    if ua != ub:
                        # run A's figures were checked against the model when the stream was recorded
                        res.viol.append(Violation(("C10", "C08"), "in-use-differs-when-lines-share-a-read",
                                                  "the same history reports %s requests in use when delivered a line per read and %s when "
                                                  "several lines arrive in one read" % ([int(x) for x in ua][:12], [int(x) for x in ub][:12])))
                if not res.viol and rnd.random() < 0.3 and len(data) < 200000:
                    # F: the stream padded (with lines about an id nobody uses) to a whole number of 4096-byte reads,
                    # delivered in reads of exactly that size, the last of which is followed by end of input at once
                    pad = (-len(b"".join(l + b"\n" for l in S))) % 4096
                    if pad < 9:
                        pad += 4096
                    fill = []
                    while pad > 0:
                        L = min(pad, 300)
                        if 0 < pad - L < 9:
                            L -= 9
                        fill.append(b"7777 n " + b"x" * (L - 8))
                        pad -= L
                    S2 = S + fill
                    dataF = b"".join(l + b"\n" for l in S2)
                    of1, exf1, hf1, df1 = raw_run(cfg, [l + b"\n" for l in S2], tag + "f")
                    of2, exf2, hf2, df2 = raw_run(cfg, [dataF[i:i + 4096] for i in range(0, len(dataF), 4096)], tag + "g")
                    hs += [hf1, hf2]
                    v = clean_exit_viol(exf1, df1, "run F (padded, line per read)") or clean_exit_viol(exf2, df2, "run F (reads of exactly 4096 bytes)")
                    if v:
                        res.viol.append(v)
                    elif b"".join(of1) != b"".join(of2):
                        res.viol.append(Violation("C08", "segmentation-changes-output",
                                                  "same bytes in %d reads of exactly 4096 bytes, then end of input: output differs from a line per "
                                                  "read: %s" % (len(dataF) // 4096, first_diff(b"".join(of1), b"".join(of2)))))
                    res.extra["runs_in_reads_of_exactly_4096_bytes"] = 1
                if not res.viol and len(data) < 400000:
                    # E: the same bytes are already waiting on the channel when the daemon enters its event loop
                    # (the server queued them while the daemon was starting).  Where the start-up lines end up among
                    # the answers is the daemon's business; everything else must be what a line per read gave.
                    oe, exe, he, de = raw_run(cfg, [], tag + "e", prequeue=b"".join(l + b"\n" for l in S))
                    hs.append(he)
                    v = clean_exit_viol(exe, de, "run E (input waiting at start-up)")
                    if v:
                        res.viol.append(v)
                    else:
                        E = b"".join(oe).split(b"\n")
                        for bl in exa.ready_out.split(b"\n"):
                            if bl in E:
                                E.remove(bl)
                        if [x for x in E if x] != [x for x in A.split(b"\n") if x]:
                            res.viol.append(Violation(("C08", "C02"), "queued-input-treated-differently",
                                                      "the same lines are treated differently when they are already waiting on the channel "
                                                      "at start-up: %s" % first_diff(A, b"\n".join(E))))
                    res.extra["runs_with_input_waiting_at_startup"] = 1
                res.extra["in_use_figures_compared"] = len(IN_USE_RE.findall(A))
                res.extra.update({"segmented_runs": 1, "read_faults": len(faults), "reads": len(chunks)})
                # C: junk interleaved, one line per read
                seq = []
                ji = {}
                for n, j in plan.get("junk", []):
                    ji.setdefault(n, []).append(j.encode("latin1"))
                for n, l in enumerate(S):
                    for j in ji.get(n, []):
                        seq.append((j, True))
                    seq.append((l, False))
                if not res.viol and any(isj for _, isj in seq):
                    oc, exc, hc, dc = raw_run(cfg, [l + b"\n" for l, _ in seq], tag + "c")
                    hs.append(hc)
                    v = clean_exit_viol(exc, dc, "run C (junk interleaved)")
                    if v:
                        res.viol.append(v)
                    else:
                        kept = b""
                        for n, (l, isj) in enumerate(seq):
                            o = oc[n] if n < len(oc) else b""
                            if isj:
                                bad = [x for x in o.decode("latin1").split("\n") if x and parse_out(x)[0] != ">"]
                                if bad:
                                    res.viol.append(Violation("C08", "junk-output", "junk line %r produced %r" % (l[:60], bad[:2])))
                                    break
                            else:
                                kept += o
                        kept += b"".join(oc[len(seq):])
                        if not res.viol and kept != A:
                            res.viol.append(Violation("C08", "junk-changes-treatment",
                                                      "well-formed lines are treated differently when junk lines are mixed in: %s" % first_diff(A, kept)))
                    res.extra["junk_runs"] = 1
                    res.extra["junk_lines"] = sum(1 for _, j in seq if j)
                    # D: junk interleaved AND arbitrary read boundaries (several lines, junk included, in one read)
                    if not res.viol:
                        dataD = b"".join(l + b"\n" for l, _ in seq)
                        chunksD = segment(rnd, dataD, rnd.choice(["mixed", "big", "one", "mixed"]))
                        od, exd, hd, dd = raw_run(cfg, chunksD, tag + "d")
                        hs.append(hd)
                        v = clean_exit_viol(exd, dd, "run D (junk + segmentation)")
                        strip = lambda b: b"\n".join(x for x in b.split(b"\n") if not x.startswith(b"> :"))
                        if v:
                            res.viol.append(v)
                        elif strip(b"".join(od)) != strip(A):
                            res.viol.append(Violation("C08", "junk-and-chunking-change-treatment",
                                                      "well-formed lines are treated differently when junk lines share their read() chunk: %s" %
                                                      first_diff(strip(A), strip(b"".join(od)))))
                        res.extra["junk_segmented_runs"] = 1
            for l in S[:200]:
                res.transcript.append(("line", l.decode("latin1")[:200], []))
            res.steps = len(S)
            res.nontrivial = len(A) > 80 and len(S) >= 3
        else:
            data = plan["data"].encode("latin1")
            res.nontrivial = True
            n = 0
            for cut in range(len(data) + 1):
                tail = b"\xff\x00garbage" if plan.get("garbage") else b""
                outs, ex, hh, died = raw_run(cfg, [data[:cut] + tail] if cut or tail else [], tag + "p")
                n += 1
                v = clean_exit_viol(ex, died, "peer death after byte %d of %d" % (cut, len(data)))
                if v:
                    res.viol.append(v)
                    res.exit = ex
                    break
                hs.append(hh)
            res.extra["prefix_runs"] = n
            res.steps = n
            res.transcript.append(("data", repr(data), []))
        res.hash = H.hashlib.sha256("".join(hs).encode()).hexdigest()
        return res

    def transcript(self, res):
        from profiles import fmt_transcript
        return fmt_transcript(res)

    def shrink(self, plan, pred, budget):
        cur = copy.deepcopy(plan)
        if cur["mode"] == "base" and cur.get("proto_plan"):
            cur["proto_plan"] = runner.profile("proto").shrink(cur["proto_plan"], lambda pl: pred(dict(cur, proto_plan=pl)), budget)
            return cur
        if cur["mode"] == "robust":
            def t(ch):
                c = dict(cur)
                c["chunks"] = ch
                c["faults"] = {}
                return pred(c)
            if budget[0] > 0 and t(cur["chunks"]):
                cur["faults"] = {}
            else:
                return cur
            joined = "".join(cur["chunks"])
            lines = joined.split("\n")
            budget[0] -= 1
            if len(lines) > 1 and t([l + "\n" for l in lines]):
                ls = ddmin([l + "\n" for l in lines], t, budget)
                cur["chunks"] = ls
        elif cur["mode"] == "indiff":
            def t2(ls):
                c = dict(cur)
                c["lines"] = ls
                c["junk"] = [j for j in cur["junk"] if False]
                return pred(c)
            budget[0] -= 1
            nojunk = dict(cur)
            nojunk["junk"] = []
            if pred(nojunk):
                cur = nojunk
                cur["lines"] = ddmin(cur["lines"], t2, budget)
            else:
                # keep junk positions only if they still index into the list: shrink junk list first
                def t3(js):
                    c = dict(cur)
                    c["junk"] = js
                    return pred(c)
                cur["junk"] = ddmin(cur["junk"], t3, budget)
        return cur


def first_diff(a, b):
    la, lb = a.split(b"\n"), b.split(b"\n")
    for n in range(max(len(la), len(lb))):
        x = la[n] if n < len(la) else None
        y = lb[n] if n < len(lb) else None
        if x != y:
            return "output line %d: %r vs %r" % (n, x[:120] if x else x, y[:120] if y else y)
    return "(equal)"


runner.register(BytesProfile())
